"""check runner: gen tree -> explore cases on all cores -> replay -> evidence"""
import argparse
import glob
import json
import multiprocessing as mp
import os
import shutil
import subprocess
import sys
import tempfile
import time

HERE = os.path.dirname(os.path.abspath(__file__))
VERIF = os.path.dirname(HERE)
REPO = os.environ.get('FRAPPY_REPO', '/repo')
sys.path.insert(0, HERE)
sys.path.insert(0, os.path.join(VERIF, 'harness'))

import gen  # noqa: E402
import core  # noqa: E402

LEVELS = {}  # property -> level, filled from MANIFEST


def _scratch():
    base = '/dev/shm' if os.path.isdir('/dev/shm') and os.access('/dev/shm', os.W_OK) else tempfile.gettempdir()
    return tempfile.mkdtemp(prefix='frappy-verif-', dir=base)


def _init_sym(gendir):
    # the regenerated tree first, never the real one
    sys.path[:] = [p for p in sys.path if os.path.abspath(p or '.') != os.path.abspath(REPO)]
    sys.path.insert(0, gendir)
    os.environ['FRAPPY_VERIF'] = '1'
    _quiet()


def _init_real():
    sys.path.insert(0, REPO)
    os.environ['FRAPPY_VERIF'] = '1'
    _quiet()


def _quiet():
    import logging
    logging.disable(logging.CRITICAL)
    if not os.environ.get('VERIF_WORKER_STDERR'):
        # worker chatter (e.g. "Exception ignored in __del__" under a RecursionError of the code under test);
        # harness errors travel in the result records, not on stderr
        sys.stderr = open(os.devnull, 'w')


def _explore(args):
    modname, case, limits = args
    try:
        return core.explore_case(modname, case, limits)
    except BaseException as e:  # noqa
        import traceback
        return {'case': case['id'], 'fn': case['fn'], 'paths': 0, 'queries': 0, 'solver_s': 0, 'decisions': 0,
                'unknown': 0, 'flags': [], 'tags': {}, 'checks': {}, 'aborts': {}, 'candidates': [],
                'exhausted': False, 'samples': [], 'nontrivial': 0, 'twin_reached': 0, 'cand_counts': {},
                'witnesses': [], 'wall_s': 0,
                'errors': ['worker failure %s: %s\n%s' % (type(e).__name__, e, traceback.format_exc()[-2000:])]}


def _replay(cand):
    try:
        return core.replay_candidate(cand)
    except BaseException as e:  # noqa
        return {'key': cand['key'], 'reproduced': False, 'keys': [], 'error': 'replay crashed: %r' % (e,)}


def harness_modules(pid):
    mods = []
    for p in sorted(glob.glob(os.path.join(VERIF, 'harness', pid + '_*.py'))):
        mods.append(os.path.basename(p)[:-3])
    return mods


def load_known():
    p = os.path.join(VERIF, 'known_findings.json')
    if not os.path.exists(p):
        return []
    with open(p) as f:
        return json.load(f)['findings']


def manifest_level(pid):
    try:
        with open(os.path.join(VERIF, 'MANIFEST.json')) as f:
            m = json.load(f)
        for c in m['checks']:
            if c['property_id'] == pid:
                return c['level_claimed']['category']
    except Exception:
        pass
    return 'model_checking'


def selftest(gendir):
    """push concrete literals through the gen tree and the real tree; outputs must agree"""
    script = os.path.join(HERE, 'selftest.py')
    outs = []
    for first in (gendir, REPO):
        env = dict(os.environ, PYTHONPATH=os.pathsep.join([first, HERE]), PYTHONHASHSEED='0')
        r = subprocess.run([sys.executable, script], env=env, capture_output=True, text=True, timeout=300)
        if r.returncode != 0:
            return False, 'selftest crashed on %s: %s' % (first, r.stderr[-2000:])
        outs.append(r.stdout)
    if outs[0] != outs[1]:
        import difflib
        d = '\n'.join(list(difflib.unified_diff(outs[0].splitlines(), outs[1].splitlines(), 'gen', 'real', lineterm=''))[:40])
        return False, 'gen tree and real tree disagree on concrete literals:\n' + d
    return True, '%d literal results identical' % len(outs[0].splitlines())


def main(argv=None):
    ap = argparse.ArgumentParser()
    ap.add_argument('pid')
    ap.add_argument('--tier', default=os.environ.get('VERIF_TIER', 'quick'))
    ap.add_argument('--replay')
    ap.add_argument('--jobs', type=int, default=int(os.environ.get('VERIF_JOBS', '16')))
    ap.add_argument('--case', default=None, help='only cases whose id contains this')
    ap.add_argument('--no-evidence', action='store_true')
    ap.add_argument('-v', action='store_true')
    a = ap.parse_args(argv)
    pid = a.pid
    tier = a.tier if a.tier in ('quick', 'thorough') else 'quick'
    seed = int(os.environ.get('VERIF_SEED', '0') or 0)
    t0 = time.time()

    if a.replay:
        return do_replay_file(pid, a.replay)

    scratch = _scratch()
    try:
        return run_check(pid, tier, seed, a, scratch, t0)
    finally:
        shutil.rmtree(scratch, ignore_errors=True)


def do_replay_file(pid, path):
    with open(path) as f:
        rec = json.load(f)
    _init_real()
    out = core.replay_candidate(rec['candidate'])
    print(json.dumps(out, indent=1))
    if out['reproduced']:
        print(f'VIOLATION property={pid} replay={path}')
        return 1
    print('not reproduced')
    return 0


def run_check(pid, tier, seed, a, scratch, t0):
    gendir = os.path.join(scratch, 'gen')
    os.makedirs(gendir)
    genstats = gen.build(REPO, gendir)
    ok, msg = selftest(gendir)
    if not ok:
        print('HARNESS-ERROR: ' + msg)
        return 2

    mods = harness_modules(pid)
    if not mods:
        print(f'HARNESS-ERROR: no harness for {pid}')
        return 2
    tasks = []
    accepted_flags = {}
    assumptions = []
    functions = []
    xh_jobs = []
    for m in mods:
        mod = core.load_harness(m)
        assumptions += list(getattr(mod, 'ASSUMPTIONS', []))
        functions += list(getattr(mod, 'FUNCTIONS', []))
        accepted_flags.update(getattr(mod, 'ACCEPTED_FLAGS', {}))
        for case in mod.cases(tier):
            if a.case and a.case not in case['id']:
                continue
            limits = dict(getattr(mod, 'LIMITS', {}).get(tier, {}))
            limits.update(case.get('limits', {}))
            tasks.append((m, case, limits))
        if hasattr(mod, 'xh_conditions'):
            xh_jobs += [(m, c) for c in mod.xh_conditions(tier) if not a.case or a.case in c['id']]
    # biggest first is unknown; keep catalogue order but interleave modules
    results = []
    ctx = mp.get_context('fork')
    if tasks:
        with ctx.Pool(processes=min(a.jobs, max(1, len(tasks))), initializer=_init_sym, initargs=(gendir,),
                      maxtasksperchild=8) as pool:
            nerr = 0
            for r in pool.imap_unordered(_explore, tasks, chunksize=1):
                results.append(r)
                nerr += bool(r['errors'])
                if nerr >= 60:
                    # the tree under test breaks the harnesses wholesale: stop, replay what was found, report (never "holds")
                    print('  giving up after %d cases with harness errors' % nerr, flush=True)
                    pool.terminate()
                    break
                if a.v:
                    print('  case %-50s paths=%-6d q=%-7d cand=%s exh=%s %.1fs %s %s %s' % (
                        r['case'], r['paths'], r['queries'], r.get('cand_counts'), r['exhausted'],
                        r.get('wall_s', 0), (r['errors'][:1] or '') and r['errors'][0][:300], r['flags'] or '', r['aborts'] or ''), flush=True)

    xh_results = []
    if xh_jobs:
        import xh
        xh_results = xh.run_jobs(xh_jobs, gendir, tier, a.jobs, verbose=a.v)

    # ---- replay candidates + witnesses on the unmodified tree
    cands = []
    for r in results:
        cands += r['candidates']
    for xr in xh_results:
        cands += xr.get('candidates', [])
    witnesses = []
    for r in results:
        witnesses += r.get('witnesses', [])
    replays = []
    if cands or witnesses:
        with ctx.Pool(processes=min(a.jobs, len(cands) + len(witnesses)), initializer=_init_real,
                      maxtasksperchild=20) as pool:
            replays = pool.map(_replay, cands + witnesses, chunksize=1)
    cand_rep = replays[:len(cands)]
    wit_rep = replays[len(cands):]

    known = [k for k in load_known() if k['property'] == pid]
    open_keys = {k['key']: k for k in known if k.get('status') == 'open'}
    violations = []
    known_hit = {}
    spurious = 0
    os.makedirs(os.path.join(VERIF, 'replays', pid), exist_ok=True)
    seen_keys = set()
    for c, rp in zip(cands, cand_rep):
        if not rp['reproduced']:
            spurious += 1
            if a.v:
                print('  spurious candidate %s: %s %s' % (c['key'], rp.get('error'), c['model']))
            continue
        if c['key'] in open_keys:
            known_hit[c['key']] = open_keys[c['key']]
            continue
        if c['key'] in seen_keys:
            continue
        seen_keys.add(c['key'])
        path = os.path.join(VERIF, 'replays', pid, core.cand_hash(c) + '.json')
        with open(path, 'w') as f:
            json.dump({'property': pid, 'candidate': c, 'replay': rp}, f, indent=1, default=str)
        violations.append((c, path))

    # a witness model (one concrete input per explored path) that makes the real tree fail an
    # assertion of the concrete part of a harness is a reproduced violation as well
    for w, rp in zip(witnesses, wit_rep):
        for k, det in zip(rp.get('keys', []), rp.get('details', [])):
            if k in open_keys:
                known_hit[k] = open_keys[k]
                continue
            if k in seen_keys:
                continue
            seen_keys.add(k)
            c = dict(w, key=k, detail=det)
            path = os.path.join(VERIF, 'replays', pid, core.cand_hash(c) + '.json')
            with open(path, 'w') as f:
                json.dump({'property': pid, 'candidate': c, 'replay': rp}, f, indent=1, default=str)
            violations.append((c, path))
    wit_ok = sum(1 for w, rp in zip(witnesses, wit_rep) if rp.get('error') is None and
                 sorted(rp.get('keys', [])) == [] and rp.get('tags_match', True))
    errors = [e for r in results for e in r['errors']] + [e for x in xh_results for e in x.get('errors', [])]

    # ---- vacuity guards
    vac = []
    tags_total = {}
    checks_total = {}
    for r in results:
        for k, v in r['tags'].items():
            tags_total[k] = tags_total.get(k, 0) + v
        for k, v in r['checks'].items():
            checks_total[k] = checks_total.get(k, 0) + v
    for m in mods:
        mod = core.load_harness(m)
        for t in getattr(mod, 'REQUIRED_TAGS', []):
            if not a.case and not tags_total.get(t):
                vac.append(f'{m}: outcome tag {t!r} never reached')
    for r in results:
        if r['paths'] and not r['checks'] and not r['tags'] and not r['errors']:
            vac.append(f"case {r['case']}: no assertion reached on any path")
    twin = sum(r['twin_reached'] for r in results)

    wall = time.time() - t0
    exhaustive = bool(results or xh_results) and all(r['exhausted'] and not r['unknown'] and not (set(r['flags']) - set(accepted_flags)) for r in results)
    xh_confirmed = all(x.get('confirmed') for x in xh_results) if xh_results else None
    level = manifest_level(pid)
    samples = []
    for r in results:
        for s in r['samples'][:1]:
            samples.append({'case': r['case'], **s})
        if len(samples) >= 8:
            break
    for x in xh_results[:4]:
        samples.append({'crosshair_condition': x['id'], 'verdict': x.get('verdict'), 'seconds': x.get('wall_s')})
    paths = sum(r['paths'] for r in results)
    cov = {
        'states': max(1, paths + sum(x.get('paths', 0) for x in xh_results)),
        'transitions': max(1, sum(r['decisions'] for r in results)),
        'traces_validated_against_impl': len(cands) + len(witnesses),
        'witness_paths_agreeing_with_impl': wit_ok,
        'samples': samples or [{'note': 'no sample'}],
        'evaluations': max(1, paths),
        'distinct_nontrivial': sum(r['nontrivial'] for r in results),
        'rule': 'one evaluation = one execution path of the real code decided by z3; non-trivial = the path '
                'decided at least one symbolic branch and reached at least one assertion of the oracle; paths are '
                'distinct by construction (each is a different sequence of branch decisions)',
        'exhaustive': exhaustive,
        'exhaustive_scope': 'the symx cases (path trees of all cases exhausted, no unknown, no unaccepted engine flag); CrossHair conditions are reported '
                            'one by one under "crosshair" - only the verdict "confirmed" is a claim over all inputs within the bound',
        'crosshair_all_confirmed': xh_confirmed,
        'explanation': 'bounded symbolic execution of the regenerated frappy source (see DESIGN.md section 2); '
                       'states = explored paths, transitions = solver-decided branches',
        'cases': len(results),
        'cases_exhausted': sum(1 for r in results if r['exhausted']),
        'solver_queries': sum(r['queries'] for r in results),
        'solver_seconds': round(sum(r['solver_s'] for r in results), 2),
        'solver_unknown': sum(r['unknown'] for r in results),
        'engine_flags': sorted({f for r in results for f in r['flags']}),
        'engine_flags_accepted': accepted_flags,
        'path_aborts': _sum_dicts(r['aborts'] for r in results),
        'outcome_tags': tags_total,
        'assertions_evaluated': checks_total,
        'reachability_twin_paths': twin,
        'candidates': len(cands),
        'spurious_candidates': spurious,
        'known_findings_hit': sorted(known_hit),
        'functions_encoded': functions,
        'gen_tree': genstats,
        'crosshair': [{k: v for k, v in x.items() if k not in ('candidates', 'errors', 'output')} for x in xh_results],
        'per_case': [{'case': r['case'], 'paths': r['paths'], 'queries': r['queries'], 'exhausted': r['exhausted'],
                      'wall_s': round(r.get('wall_s', 0), 2)} for r in sorted(results, key=lambda r: r['case'])][:400],
        'harness_errors': errors[:5],
        'vacuity_problems': vac,
    }
    ev = {'property_id': pid, 'tier': tier, 'seed': seed, 'level': level, 'coverage': cov,
          'assumptions': assumptions + [
              'python float modelled as mathematical real within the double range (NaN/inf only as concrete tokens)',
              'error message texts are not evaluated for symbolic numbers (rewrite T1)',
              'builtins int/float/bool/isinstance/type/max/min/sorted replaced by symbolic-aware shims (rewrite T2)'],
          'wall_s': round(wall, 2), 'violations': len(violations)}
    if not a.no_evidence and not a.case:
        os.makedirs(os.path.join(VERIF, 'evidence'), exist_ok=True)
        with open(os.path.join(VERIF, 'evidence', pid + '.json'), 'w') as f:
            json.dump(ev, f, indent=1, default=str)

    print(f'{pid} [{tier}] cases={len(results)} paths={paths} queries={cov["solver_queries"]} '
          f'solver={cov["solver_seconds"]}s unknown={cov["solver_unknown"]} exhaustive={exhaustive} '
          f'candidates={len(cands)} spurious={spurious} wall={wall:.1f}s')
    if cov['engine_flags']:
        print('  engine flags:', cov['engine_flags'])
    for k, kf in sorted(known_hit.items()):
        print(f'KNOWN-FINDING: property={pid} {kf["what"]} [{k}]')
    if errors or vac:
        for e in errors[:5]:
            print('HARNESS-ERROR:', e)
        for v in vac:
            print('HARNESS-ERROR (vacuity):', v)
    for c, path in violations:
        print(f'  violation key={c["key"]} case={c["case"]["id"]} model={c["model"]} detail={c.get("detail")}')
        print(f'VIOLATION property={pid} replay={path}')
    if violations:
        return 1
    if errors or vac:
        return 2
    return 0


def _sum_dicts(ds):
    out = {}
    for d in ds:
        for k, v in d.items():
            out[k] = out.get(k, 0) + v
    return out


if __name__ == '__main__':
    sys.exit(main())
