"""Engine C: IEEE-754 lemmas for the scaled-integer kernels (QF_FP, z3)

The bodies of ScaledInteger.{__call__, export_value, import_value, export_datatype}
are translated from the *current source* (ast of frappy/datatypes.py) into z3
floating point terms: / * + with round-to-nearest-even, round() = roundToIntegral
(RNE), int() = roundToIntegral(RTZ), float() of an exact integer product.
The integer operand is a bounded signed bit-vector; the scale is a constant.
"""
import ast
import os
import time
from fractions import Fraction

import z3

F = z3.Float64()
RNE = z3.RNE()


class Unsupported(Exception):
    pass


def _source(repo):
    with open(os.path.join(repo, 'frappy', 'datatypes.py'), encoding='utf-8') as f:
        return f.read()


def _methods(repo, clsname='ScaledInteger'):
    tree = ast.parse(_source(repo))
    for node in tree.body:
        if isinstance(node, ast.ClassDef) and node.name == clsname:
            return {n.name: n for n in node.body if isinstance(n, ast.FunctionDef)}
    raise Unsupported('class not found')


class Interp:
    """straight-line symbolic evaluation of a method body over z3 FP terms

    values: z3 FP terms; ('int', fp_term) marks a Python int whose value is the (integral) fp term"""

    def __init__(self, selfattrs):
        self.selfattrs = selfattrs
        self.side = []    # side conditions (e.g. "is integral") assumed by int(value + 0) == value

    def run(self, fn, args):
        env = dict(args)
        return self.block(fn.body, env)

    def block(self, stmts, env):
        for st in stmts:
            if isinstance(st, ast.Expr):
                continue    # docstring / call for effect
            if isinstance(st, ast.Assign) and len(st.targets) == 1 and isinstance(st.targets[0], ast.Name):
                env[st.targets[0].id] = self.expr(st.value, env)
            elif isinstance(st, ast.AugAssign) and isinstance(st.target, ast.Name):
                env[st.target.id] = self.binop(st.op, env[st.target.id], self.expr(st.value, env))
            elif isinstance(st, ast.Try):
                r = self.block(st.body, env)      # the exception handlers guard non-numbers / non-finite values only
                if r is not None:
                    return r
            elif isinstance(st, ast.If):
                # only the "not an integer" guard of import_value is understood: assume the integral branch
                test = ast.unparse(st.test)
                if 'intval != value' in test or 'value != intval' in test:
                    continue
                raise Unsupported('if: ' + test)
            elif isinstance(st, ast.Return):
                return self.expr(st.value, env)
            elif isinstance(st, ast.Raise):
                raise Unsupported('raise on the straight line')
            else:
                raise Unsupported(type(st).__name__)
        return None

    def fp(self, v):
        return v[1] if isinstance(v, tuple) else v

    def binop(self, op, a, b):
        isint = isinstance(a, tuple) and isinstance(b, tuple)
        a, b = self.fp(a), self.fp(b)
        if isinstance(op, ast.Div):
            return z3.fpDiv(RNE, a, b)
        if isinstance(op, ast.Mult):
            r = z3.fpMul(RNE, a, b)
        elif isinstance(op, ast.Add):
            r = z3.fpAdd(RNE, a, b)
        elif isinstance(op, ast.Sub):
            r = z3.fpSub(RNE, a, b)
        else:
            raise Unsupported(type(op).__name__)
        return ('int', r) if isint else r

    def expr(self, e, env):
        if isinstance(e, ast.Name):
            return env[e.id]
        if isinstance(e, ast.Constant) and isinstance(e.value, (int, float)):
            v = z3.FPVal(float(e.value), F)
            return ('int', v) if isinstance(e.value, int) else v
        if isinstance(e, ast.Attribute) and isinstance(e.value, ast.Name) and e.value.id == 'self':
            return self.selfattrs[e.attr]
        if isinstance(e, ast.BinOp):
            return self.binop(e.op, self.expr(e.left, env), self.expr(e.right, env))
        if isinstance(e, ast.Call):
            f = e.func
            if isinstance(f, ast.Name) and f.id == 'round' and len(e.args) == 1:
                return ('int', z3.fpRoundToIntegral(RNE, self.fp(self.expr(e.args[0], env))))
            if isinstance(f, ast.Name) and f.id == 'int' and len(e.args) == 1:
                return ('int', z3.fpRoundToIntegral(z3.RTZ(), self.fp(self.expr(e.args[0], env))))
            if isinstance(f, ast.Name) and f.id == 'float' and len(e.args) == 1:
                return self.fp(self.expr(e.args[0], env))
            if isinstance(f, ast.Attribute) and f.attr == 'get_info':
                return {kw.arg: self.expr(kw.value, env) for kw in e.keywords if kw.arg in ('min', 'max')}
        raise Unsupported(ast.unparse(e))


def decimal_fraction(scale):
    """scale as the decimal fraction a user wrote (repr) -- (num, den)"""
    fr = Fraction(repr(float(scale)))
    return fr.numerator, fr.denominator


LEMMAS = ('export-datatype-limit', 'export-import-roundtrip', 'call-idempotent', 'call-export')


def build(repo, lemma, scale, bits):
    """returns (negated lemma as z3 Bool, k bit-vector)"""
    m = _methods(repo)
    k = z3.BitVec('k', bits)
    kf = z3.fpSignedToFP(RNE, k, F)
    s = z3.FPVal(float(scale), F)
    num, den = decimal_fraction(scale)
    if num * (1 << bits) >= 1 << 53 or den >= 1 << 53:
        raise Unsupported('scale has too many decimal digits for an exact grid value')
    # the grid value as a user writes it: the double nearest to k*num/den (one rounding: k*num is exact)
    dec = z3.fpDiv(RNE, z3.fpMul(RNE, kf, z3.FPVal(float(num), F)), z3.FPVal(float(den), F))
    attrs = {'scale': s, 'min': dec, 'max': dec}
    it = Interp(attrs)

    def call(name, **args):
        return it.run(m[name], args)
    if lemma == 'export-datatype-limit':
        info = call('export_datatype')
        r = it.fp(info['min'])
        return z3.Not(z3.fpEQ(r, kf)), k
    if lemma == 'export-import-roundtrip':
        x = it.fp(call('import_value', value=('int', kf)))
        r = it.fp(call('export_value', value=x))
        return z3.Not(z3.fpEQ(r, kf)), k
    if lemma == 'call-idempotent':
        v = it.fp(call('__call__', value=dec))
        v2 = it.fp(call('__call__', value=v))
        return z3.Not(z3.fpEQ(v, v2)), k
    if lemma == 'call-export':
        v = it.fp(call('__call__', value=dec))
        r = it.fp(call('export_value', value=v))
        return z3.Not(z3.fpEQ(r, kf)), k
    raise KeyError(lemma)


def solve(repo, lemma, scale, bits, timeout_s):
    """('unsat', None) | ('sat', k) | ('unknown', reason)"""
    try:
        neg, k = build(repo, lemma, scale, bits)
    except Unsupported as e:
        return 'unknown', 'unsupported source construct: %s' % e
    sol = z3.Solver()
    sol.set('timeout', int(timeout_s * 1000))
    sol.add(neg)
    t0 = time.time()
    r = sol.check()
    dt = time.time() - t0
    if r == z3.sat:
        return 'sat', sol.model().eval(k, model_completion=True).as_signed_long(), dt
    if r == z3.unsat:
        return 'unsat', None, dt
    return 'unknown', 'solver: ' + sol.reason_unknown(), dt


def concrete(lemma, scale, k):
    """the same lemma on the real code with real doubles (whatever frappy is first on sys.path)"""
    from frappy.datatypes import ScaledInteger
    num, den = decimal_fraction(scale)
    dec = k * num / den
    big = max(abs(dec) * 2, 1e6)
    if lemma == 'export-datatype-limit':
        dt = ScaledInteger(scale, dec, dec + scale * 4)
        return dt.export_datatype()['min'] == k
    dt = ScaledInteger(scale, -big, big)
    if lemma == 'export-import-roundtrip':
        return dt.export_value(dt.import_value(k)) == k
    if lemma == 'call-idempotent':
        v = dt(dec)
        return dt(v) == v
    if lemma == 'call-export':
        return dt.export_value(dt(dec)) == k
    raise KeyError(lemma)
