"""harness environment, path explorer and replay for symx harnesses"""
import hashlib
import importlib
import json
import os
import sys
import time
import traceback
from collections import Counter
from fractions import Fraction

HERE = os.path.dirname(os.path.abspath(__file__))
VERIF = os.path.dirname(HERE)


class ReplayMismatch(BaseException):
    """the concrete values do not follow the symbolic path (assumption false)"""


class Env:
    """what a harness sees; symbolic in mode 'sym', concrete in mode 'replay'"""

    def __init__(self, mode, model=None, ctx=None):
        self.mode = mode
        self.model = model or {}
        self.ctx = ctx
        self.candidates = []     # sym mode: dict(key, model, detail)
        self.reproduced = []     # replay mode: dict(key, detail)
        self.tags = Counter()
        self.checks = Counter()
        self.trace = []          # free-form notes of the harness (samples)

    # ---- inputs
    def _declare(self, name, sort):
        import z3
        if name in self.ctx.inputs:
            raise RuntimeError(f'duplicate input {name}')
        v = z3.Const(name, sort)
        self.ctx.inputs[name] = v
        return v

    def int(self, name, lo=None, hi=None):
        if self.mode == 'replay':
            return int(self.model[name])
        import z3
        from symx import SymInt
        v = self._declare(name, z3.IntSort())
        if lo is not None:
            self.ctx.add(v >= lo)
        if hi is not None:
            self.ctx.add(v <= hi)
        return SymInt(v)

    def real(self, name, lo=None, hi=None):
        if self.mode == 'replay':
            return float(self.model[name])
        import z3
        from symx import SymReal, _frac
        v = self._declare(name, z3.RealSort())
        if lo is not None:
            self.ctx.add(v >= _frac(lo))
        if hi is not None:
            self.ctx.add(v <= _frac(hi))
        return SymReal(v)

    def bool(self, name):
        if self.mode == 'replay':
            return bool(self.model[name])
        import z3
        from symx import SymBool
        return SymBool(self._declare(name, z3.BoolSort()))

    def choice(self, name, n):
        """bounded selector: a concrete int in range(n), every feasible value explored"""
        if self.mode == 'replay':
            return int(self.model[name])
        return self.ctx.concretize(self.int(name, 0, n - 1))

    def flag(self, name):
        """symbolic boolean decided right away (forks)"""
        if self.mode == 'replay':
            return bool(self.model[name])
        return bool(self.bool(name))

    # ---- assumptions / assertions
    def assume(self, cond):
        if self.mode == 'replay':
            if not cond:
                raise ReplayMismatch('assumption false')
            return
        from symx import Sym, PathAbort
        import z3
        if isinstance(cond, Sym):
            e = cond.to_bool().e
            if self.ctx.check(e) == z3.unsat:
                raise PathAbort('assume-infeasible')
            self.ctx.add(e)
        elif not cond:
            raise PathAbort('assume-false')

    def check(self, cond, key, detail=None):
        """the property's assertion; key identifies the kind of failure"""
        self.checks[key] += 1
        if self.mode == 'replay':
            if not cond:
                self.reproduced.append({'key': key, 'detail': detail})
            return bool(cond)
        from symx import Sym, PathAbort, extract_model
        import z3
        if isinstance(cond, Sym):
            e = cond.to_bool().e
            neg = z3.Not(e)
            r = self.ctx.check(neg)
            if r == z3.sat:
                m = extract_model(self.ctx, [neg])
                if m is not None:
                    self.candidates.append({'key': key, 'model': m, 'detail': detail})
            elif r == z3.unknown:
                self.ctx.flags.add('unknown-at-check')
            if self.ctx.check(e) == z3.unsat:
                raise PathAbort('check-always-fails')
            self.ctx.add(e)
            return True
        if not cond:
            m = extract_model(self.ctx)
            if m is not None:
                self.candidates.append({'key': key, 'model': m, 'detail': detail})
            raise PathAbort('check-failed')
        return True

    def fail(self, key, detail=None):
        return self.check(False, key, detail)

    def note(self, tag):
        self.tags[tag] += 1

    def log(self, *what):
        if len(self.trace) < 40:
            self.trace.append(' '.join(str(w) for w in what))

    def budget(self, name, n):
        if self.mode == 'sym':
            self.ctx.use_budget(name, n)
        else:
            c = self.model.setdefault('__budget__', {})
            c[name] = c.get(name, 0) + 1
            if c[name] > n:
                raise ReplayMismatch('budget')


def _jsonable(x):
    if isinstance(x, Fraction):
        return float(x)
    if isinstance(x, dict):
        return {str(k): _jsonable(v) for k, v in x.items()}
    if isinstance(x, (list, tuple)):
        return [_jsonable(v) for v in x]
    if isinstance(x, float) and x != x:
        return 'NaN'
    if isinstance(x, (int, float, str, bool)) or x is None:
        return x
    return repr(x)


def load_harness(modname):
    if os.path.join(VERIF, 'harness') not in sys.path:
        sys.path.insert(0, os.path.join(VERIF, 'harness'))
    return importlib.import_module(modname)


def explore_case(modname, case, limits):
    """explore all paths of one case. returns a json-able result dict"""
    import symx
    import z3
    mod = load_harness(modname)
    fn = getattr(mod, case['fn'])
    t0 = time.time()
    res = {'case': case['id'], 'fn': case['fn'], 'paths': 0, 'queries': 0, 'solver_s': 0.0,
           'decisions': 0, 'unknown': 0, 'flags': [], 'tags': {}, 'checks': {}, 'aborts': {},
           'candidates': [], 'exhausted': False, 'errors': [], 'samples': [], 'nontrivial': 0,
           'twin_reached': 0, 'witnesses': []}
    flags, tags, checks, aborts = set(), Counter(), Counter(), Counter()
    stack = [[]]
    max_paths = limits.get('max_paths', 200000)
    max_s = limits.get('max_s', 600)
    seen_cand = Counter()
    while stack:
        if res['paths'] >= max_paths or time.time() - t0 > max_s:
            break
        prefix = stack.pop()
        ctx = symx.Ctx(prefix, timeout_ms=limits.get('solver_timeout_ms', 20000))
        symx.set_current(ctx)
        env = Env('sym', ctx=ctx)
        outcome = 'done'
        try:
            fn(env, case.get('params'))
        except symx.PathAbort as e:
            outcome = 'abort:' + e.reason
            aborts[e.reason] += 1
        except symx.EngineLimit as e:
            outcome = 'engine-limit'
            res['errors'].append('EngineLimit: %s\n%s' % (e, ''.join(traceback.format_exc()[-1500:])))
        except ReplayMismatch:
            outcome = 'abort:mismatch'
        except Exception as e:  # escaped the harness: harness or engine defect, never "holds"
            outcome = 'error'
            res['errors'].append('%s: %s\n%s' % (type(e).__name__, e, traceback.format_exc()[-2500:]))
            # if the same exception escapes on the real tree with this path's inputs, the tree under test
            # (not the engine) raises it: reported as a violation with a replay instead of a harness error
            try:
                wm = symx.extract_model(ctx)
            except BaseException:
                wm = None
            if wm is not None:
                env.candidates.append({'key': '%s/uncaught-exception/%s/%s' % (getattr(mod, 'PROPERTY', '?'), case['fn'], type(e).__name__),
                                       'model': wm, 'detail': repr(e)[:200]})
        finally:
            symx.set_current(None)
        res['paths'] += 1
        res['queries'] += ctx.queries
        res['solver_s'] += ctx.solver_s
        res['unknown'] += ctx.unknown
        res['decisions'] += len(ctx.decisions)
        flags |= ctx.flags
        tags.update(env.tags)
        checks.update(env.checks)
        if outcome == 'done' and env.checks:
            res['twin_reached'] += 1
        if len(ctx.decisions) > 0 and env.checks:
            res['nontrivial'] += 1
        for c in env.candidates:
            seen_cand[c['key']] += 1
            if seen_cand[c['key']] <= limits.get('max_cand_per_key', 4):
                c['case'] = case
                c['module'] = modname
                res['candidates'].append(_jsonable(c))
        if outcome == 'done' and env.checks and len(res.setdefault('witnesses', [])) < limits.get('witnesses', 1):
            try:
                wm = symx.extract_model(ctx)
            except BaseException:
                wm = None
            if wm is not None and '__inexact__' not in wm:
                res['witnesses'].append(_jsonable({'key': '__witness__', 'module': modname, 'case': case, 'model': wm,
                                                   'tags': dict(env.tags)}))
        if len(res['samples']) < 3 and env.checks:
            res['samples'].append({'decisions': len(ctx.decisions), 'outcome': outcome,
                                   'tags': dict(env.tags), 'trace': env.trace[:12]})
        n0 = len(prefix)
        for j in ctx.alts:
            if j >= n0:
                t, k = ctx.decisions[j]
                stack.append(ctx.decisions[:j] + [(not t, k)])
        if len(res['errors']) > 2:
            break
    res['exhausted'] = not stack and not res['errors']
    res['flags'] = sorted(flags)
    res['tags'] = dict(tags)
    res['checks'] = dict(checks)
    res['aborts'] = dict(aborts)
    res['cand_counts'] = dict(seen_cand)
    res['wall_s'] = time.time() - t0
    return res


def replay_candidate(cand):
    """run the harness concretely (sys.path must point at the real tree)"""
    if cand['module'].startswith('xh:'):
        import xh
        return _jsonable(xh.replay(cand))
    mod = load_harness(cand['module'])
    case = cand['case']
    fn = getattr(mod, case['fn'])
    model = dict(cand['model'])
    env = Env('replay', model=model)
    out = {'key': cand['key'], 'reproduced': False, 'keys': [], 'error': None}
    try:
        fn(env, case.get('params'))
    except ReplayMismatch as e:
        out['error'] = 'mismatch: %s' % e
    except KeyError as e:
        out['error'] = 'path diverged (input %s not in model)' % e
    except Exception as e:
        out['error'] = 'exception %s: %s' % (type(e).__name__, e)
        out['traceback'] = traceback.format_exc()[-2000:]
        if '/uncaught-exception/' in cand['key'] and cand['key'].endswith('/' + type(e).__name__):
            env.reproduced.append({'key': cand['key'], 'detail': repr(e)[:200]})
    out['keys'] = [r['key'] for r in env.reproduced]
    out['details'] = [r['detail'] for r in env.reproduced]
    out['reproduced'] = cand['key'] in out['keys']
    out['trace'] = env.trace[:20]
    out['tags'] = dict(env.tags)
    if 'tags' in cand:
        out['tags_match'] = all(env.tags.get(k) == v for k, v in cand['tags'].items())
    return _jsonable(out)


def cand_hash(cand):
    blob = json.dumps([cand['module'], cand['case']['id'], cand['key'], cand['model']], sort_keys=True, default=str)
    return hashlib.sha1(blob.encode()).hexdigest()[:12]
