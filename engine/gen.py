"""regenerate the tree that the symbolic engine executes (DESIGN.md 2.1)

build(repo, dest) copies <repo>/frappy* python packages needed by the harnesses
into <dest> and rewrites every module with the cuts T1 and T2.  Nothing else
is changed; a construct the transformer does not recognise is left untouched.
"""
import ast
import os
import shutil
import sys

SHIMMED = {'int', 'float', 'bool', 'isinstance', 'type', 'max', 'min', 'sorted'}
PACKAGES = ['frappy', 'frappy_demo']
SKIP_DIRS = {'gui', '__pycache__'}


class _Scope(ast.NodeVisitor):
    """names bound locally in a function (params + assignment targets)"""
    def __init__(self):
        self.names = set()

    def visit_Name(self, node):
        if isinstance(node.ctx, (ast.Store, ast.Del)):
            self.names.add(node.id)

    def visit_FunctionDef(self, node):
        self.names.add(node.name)  # do not descend

    visit_AsyncFunctionDef = visit_FunctionDef

    def visit_Lambda(self, node):
        pass

    def visit_ClassDef(self, node):
        self.names.add(node.name)


def _local_names(fn):
    sc = _Scope()
    a = fn.args
    for arg in a.posonlyargs + a.args + a.kwonlyargs:
        sc.names.add(arg.arg)
    if a.vararg:
        sc.names.add(a.vararg.arg)
    if a.kwarg:
        sc.names.add(a.kwarg.arg)
    body = fn.body if isinstance(fn.body, list) else [fn.body]
    for st in body:
        sc.visit(st)
    return sc.names


def _is_msg(node):
    if isinstance(node, ast.JoinedStr):
        return True
    if isinstance(node, ast.BinOp) and isinstance(node.op, ast.Mod):
        left = node.left
        if isinstance(left, ast.Constant) and isinstance(left.value, str):
            return True
        if isinstance(left, ast.JoinedStr):
            return True
    return False


class Cut(ast.NodeTransformer):
    def __init__(self):
        self.scopes = []
        self.stats = {'T1': 0, 'T2': 0}

    def _shadowed(self, name):
        return any(name in s for s in self.scopes)

    def _visit_fn(self, node):
        self.scopes.append(_local_names(node))
        self.generic_visit(node)
        self.scopes.pop()
        return node

    visit_FunctionDef = visit_AsyncFunctionDef = visit_Lambda = _visit_fn

    def visit_Call(self, node):
        self.generic_visit(node)
        f = node.func
        if isinstance(f, ast.Name) and f.id in SHIMMED and not self._shadowed(f.id):
            node.func = ast.copy_location(
                ast.Attribute(value=ast.Name(id='_sx', ctx=ast.Load()), attr=f.id + '_', ctx=ast.Load()), f)
            self.stats['T2'] += 1
        return node

    LOGNAMES = {'debug', 'info', 'warning', 'error', 'exception', 'critical', 'log'}

    def visit_Expr(self, node):
        """self.log.debug(...) etc: arguments are formatted for the log only (T1b)"""
        self.generic_visit(node)
        v = node.value
        if isinstance(v, ast.Call) and isinstance(v.func, ast.Attribute) and v.func.attr in self.LOGNAMES:
            recv = v.func.value
            name = recv.attr if isinstance(recv, ast.Attribute) else recv.id if isinstance(recv, ast.Name) else ''
            if name in ('log', 'logger', '_log'):
                self.stats['T1'] += 1
                call = lambda n: ast.Expr(value=ast.Call(  # noqa: E731
                    func=ast.Attribute(value=ast.Name(id='_sx', ctx=ast.Load()), attr=n, ctx=ast.Load()),
                    args=[], keywords=[]))
                return [ast.copy_location(call('nofmt_begin'), node),
                        ast.copy_location(ast.Try(body=[node], handlers=[], orelse=[], finalbody=[call('nofmt_end')]), node)]
        return node

    def visit_Raise(self, node):
        """raise E(<msg>)  ->  _sx.begin(); try: _sx_mN = <msg>; finally: _sx.end(); raise E(_sx_mN)

        (statement level, so that scoping of the names used in <msg> is unchanged)"""
        self.generic_visit(node)
        exc = node.exc
        if not isinstance(exc, ast.Call):
            return node
        pre = []
        newargs = []
        for a in exc.args:
            if _is_msg(a):
                self.stats['T1'] += 1
                tmp = f'_sx_m{self.stats["T1"]}'
                call = lambda name: ast.Expr(value=ast.Call(  # noqa: E731
                    func=ast.Attribute(value=ast.Name(id='_sx', ctx=ast.Load()), attr=name, ctx=ast.Load()),
                    args=[], keywords=[]))
                pre.append(call('nofmt_begin'))
                pre.append(ast.Try(body=[ast.Assign(targets=[ast.Name(id=tmp, ctx=ast.Store())], value=a)],
                                   handlers=[], orelse=[], finalbody=[call('nofmt_end')]))
                a = ast.Name(id=tmp, ctx=ast.Load())
            newargs.append(a)
        exc.args = newargs
        if not pre:
            return node
        return [ast.copy_location(p, node) for p in pre] + [node]


def transform_source(src, filename='<src>'):
    tree = ast.parse(src, filename)
    cut = Cut()
    tree = cut.visit(tree)
    # insert the shim import after docstring and __future__ imports
    pos = 0
    body = tree.body
    if body and isinstance(body[0], ast.Expr) and isinstance(getattr(body[0], 'value', None), ast.Constant) \
            and isinstance(body[0].value.value, str):
        pos = 1
    while pos < len(body) and isinstance(body[pos], ast.ImportFrom) and body[pos].module == '__future__':
        pos += 1
    body.insert(pos, ast.Import(names=[ast.alias(name='symx_shims', asname='_sx')]))
    ast.fix_missing_locations(tree)
    return ast.unparse(tree), cut.stats


def build(repo, dest, packages=PACKAGES):
    """returns dict with statistics of the rewrite"""
    total = {'T1': 0, 'T2': 0, 'files': 0, 'untouched': []}
    for pkg in packages:
        srcroot = os.path.join(repo, pkg)
        if not os.path.isdir(srcroot):
            continue
        for dirpath, dirnames, filenames in os.walk(srcroot):
            dirnames[:] = [d for d in dirnames if d not in SKIP_DIRS]
            rel = os.path.relpath(dirpath, repo)
            os.makedirs(os.path.join(dest, rel), exist_ok=True)
            for fn in filenames:
                sp = os.path.join(dirpath, fn)
                dp = os.path.join(dest, rel, fn)
                if not fn.endswith('.py'):
                    shutil.copy2(sp, dp)
                    continue
                with open(sp, encoding='utf-8') as f:
                    src = f.read()
                try:
                    out, stats = transform_source(src, sp)
                    total['T1'] += stats['T1']
                    total['T2'] += stats['T2']
                except SyntaxError:
                    out = src
                    total['untouched'].append(os.path.join(rel, fn))
                with open(dp, 'w', encoding='utf-8') as f:
                    f.write(out)
                total['files'] += 1
    return total


if __name__ == '__main__':
    print(build(sys.argv[1], sys.argv[2]))
