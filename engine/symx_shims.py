"""builtins shims used by the regenerated (gen) tree -- rewrite T2 of DESIGN.md.

Every shim behaves exactly like the builtin for ordinary objects and returns
a symbolic result only when a symbolic operand is involved."""
import builtins

from symx import Sym, SymInt, SymReal, SymBool, current, _lift, _pair, _NonFinite, _num, ite
import z3

_int, _float, _bool, _isinstance, _type = builtins.int, builtins.float, builtins.bool, builtins.isinstance, builtins.type
_max, _min, _sorted, _abs = builtins.max, builtins.min, builtins.sorted, builtins.abs


def int_(*args, **kw):
    if len(args) == 1 and not kw and _isinstance(args[0], Sym):
        return args[0].to_int()
    return _int(*args, **kw)


def float_(*args):
    if len(args) == 1 and _isinstance(args[0], Sym):
        return args[0].to_real()
    return _float(*args)


def bool_(*args):
    if len(args) == 1 and _isinstance(args[0], Sym):
        return args[0].to_bool()
    return _bool(*args)


def isinstance_(obj, cls):
    if _isinstance(obj, Sym):
        return issubclass(obj.PYTYPE, cls)
    return _isinstance(obj, cls)


def type_(*args, **kw):
    if len(args) == 1 and not kw and _isinstance(args[0], Sym):
        return args[0].PYTYPE
    return _type(*args, **kw)


def _same_kind(items):
    """lifted operands if all are plain numbers of one python kind and one is symbolic"""
    if not any(_isinstance(i, Sym) for i in items):
        return None
    lifted = []
    kinds = set()
    for i in items:
        li = _lift(i)
        if li is None or _isinstance(li, _NonFinite):
            return None
        kinds.add(li.PYTYPE)
        lifted.append(li)
    if len(kinds) != 1 or kinds == {bool}:
        return None
    return lifted


def _wrap(e, like):
    return SymReal(e) if _isinstance(like, SymReal) else SymInt(e)


def max_(*args, **kw):
    if not kw and len(args) >= 2:
        l = _same_kind(args)
        if l:
            r = _num(l[0])
            for x in l[1:]:
                e = _num(x)
                r = ite(e > r, e, r)
            return _wrap(r, l[0])
    return _max(*args, **kw)


def min_(*args, **kw):
    if not kw and len(args) >= 2:
        l = _same_kind(args)
        if l:
            r = _num(l[0])
            for x in l[1:]:
                e = _num(x)
                r = ite(e < r, e, r)
            return _wrap(r, l[0])
    return _min(*args, **kw)


def sorted_(it, **kw):
    if not kw:
        items = list(it)
        if 2 <= len(items) <= 3:
            l = _same_kind(items)
            if l:
                es = [_num(x) for x in l]

                def cswap(i, j):
                    a, b = es[i], es[j]
                    d = current().decide(b < a)
                    if d is True:
                        es[i], es[j] = b, a
                    elif d is None:
                        es[i], es[j] = ite(b < a, b, a), ite(b < a, a, b)
                if len(es) == 2:
                    cswap(0, 1)
                else:
                    cswap(0, 1)
                    cswap(1, 2)
                    cswap(0, 1)
                return [_wrap(e, l[0]) for e in es]
        return _sorted(items)
    return _sorted(it, **kw)


def nofmt_begin():
    """rewrite T1: while a message text is built, symbolic numbers render as a
    placeholder; everything the expression evaluates (and raises) is kept"""
    ctx = current()
    if ctx is not None:
        ctx.in_nofmt += 1


def nofmt_end():
    ctx = current()
    if ctx is not None:
        ctx.in_nofmt -= 1
