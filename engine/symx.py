"""symx -- a small symbolic executor for running frappy's real Python code.

Symbolic values wrap z3 terms and overload the numeric protocol; the code
under test runs natively.  Whenever a symbolic condition is used as a Python
truth value the current path asks z3 which outcomes are feasible, follows one
and remembers the other; `explore` re-executes the harness from scratch along
every remembered prefix until the tree of decisions is exhausted (DFS).

Python int   -> z3 Int  (unbounded)
Python float -> z3 Real (the "floats as reals" abstraction; stated in every
                evidence file).  NaN / +-inf only occur as concrete values.
Python bool  -> z3 Bool
"""
import math
import os
import time
from fractions import Fraction

import z3

__all__ = ['SymInt', 'SymReal', 'SymBool', 'Sym', 'PathAbort', 'EngineLimit',
           'Ctx', 'current', 'And', 'Or', 'Not', 'Implies', 'If', 'is_sym']


class PathAbort(BaseException):
    """ends the current path (infeasible assumption or bound reached)"""
    def __init__(self, reason='abort'):
        super().__init__(reason)
        self.reason = reason


class EngineLimit(BaseException):
    """an operation the engine can not model faithfully was attempted"""


_CTX = None


def current():
    return _CTX


def set_current(ctx):
    global _CTX
    _CTX = ctx


PLACEHOLDER = '<sym>'


class Ctx:
    """state of one path"""
    MAX_CONCRETIZE = 400

    def __init__(self, prefix=(), timeout_ms=20000):
        self.solver = z3.Solver()
        self.fast_ms = 250
        self.solver.set('timeout', self.fast_ms)
        self.timeout_ms = timeout_ms
        self.last_model = None
        self.fallbacks = 0
        self.floor_cache = {}
        self.prefix = list(prefix)
        self.decisions = []      # bools, one per solver-stage branch
        self.alts = []           # indices in decisions where the other side is feasible too
        self.nfresh = 0
        self.inputs = {}         # name -> z3 const (declared inputs)
        self.flags = set()
        self.queries = 0
        self.solver_s = 0.0
        self.unknown = 0
        self.in_nofmt = 0
        self.budget = {}

    # -- solver helpers
    def check(self, *assumptions):
        t0 = time.perf_counter()
        r = self.solver.check(*assumptions)
        self.last_model = None
        if r == z3.sat:
            self.last_model = self.solver.model()
        elif r == z3.unknown:
            # the incremental core lacks the preprocessing that decides mixed int/real
            # floor constraints: retry from scratch with z3's default strategy
            self.fallbacks += 1
            s2 = z3.Solver()
            s2.set('timeout', self.timeout_ms)
            s2.add(self.solver.assertions())
            for a in assumptions:
                s2.add(a)
            r = s2.check()
            if r == z3.sat:
                self.last_model = s2.model()
        self.solver_s += time.perf_counter() - t0
        self.queries += 1
        if r == z3.unknown:
            self.unknown += 1
        return r

    def add(self, cond):
        self.solver.add(cond)

    def fresh(self, sort, hint='t'):
        self.nfresh += 1
        name = f'_{hint}{self.nfresh}'
        return z3.Const(name, sort)

    def branch(self, cond, k=None):
        """decide a symbolic condition, returns a Python bool

        decisions are recorded as (taken, k); k is the value proposed by
        concretize() so that re-execution along a prefix proposes the same"""
        cond = z3.simplify(cond)
        if z3.is_true(cond):
            return True
        if z3.is_false(cond):
            return False
        i = len(self.decisions)
        if i < len(self.prefix):
            taken = self.prefix[i][0]
            self.decisions.append((taken, k))
            self.solver.add(cond if taken else z3.Not(cond))
            return taken
        if i > 4000:
            raise PathAbort('decision-bound')
        r_true = self.check(cond)
        if r_true == z3.unsat:
            taken = False   # pc is satisfiable, so the other side is
        else:
            r_false = self.check(z3.Not(cond))
            taken = True
            if r_false != z3.unsat:
                self.alts.append(i)
        self.decisions.append((taken, k))
        self.solver.add(cond if taken else z3.Not(cond))
        return taken

    def decide(self, cond):
        """True / False if the path condition implies cond / not cond, else None (no fork)"""
        cond = z3.simplify(cond)
        if z3.is_true(cond):
            return True
        if z3.is_false(cond):
            return False
        if self.check(cond) == z3.unsat:
            return False
        if self.check(z3.Not(cond)) == z3.unsat:
            return True
        return None

    def concretize(self, sym):
        """enumerate the feasible values of an integer term (forks per value)"""
        e = z3.simplify(sym.e)
        if z3.is_int_value(e):
            return e.as_long()
        for _ in range(self.MAX_CONCRETIZE):
            i = len(self.decisions)
            if i < len(self.prefix) and self.prefix[i][1] is not None:
                k = self.prefix[i][1]
            else:
                r = self.check()
                if r != z3.sat:
                    raise PathAbort('concretize-unknown')
                k = self.last_model.eval(e, model_completion=True).as_long()
            if self.branch(e == k, k):
                return k
        self.flags.add('concretize-bound')
        raise PathAbort('concretize-bound')

    def use_budget(self, name, n):
        """call budget for stubs the code may call without bound"""
        c = self.budget.get(name, 0) + 1
        self.budget[name] = c
        if c > n:
            raise PathAbort('budget:' + name)


def is_sym(x):
    return isinstance(x, Sym)


def _frac(x):
    fr = Fraction(x)
    return z3.Q(fr.numerator, fr.denominator)


class _NonFinite:
    def __init__(self, v):
        self.v = v


def _lift(x):
    """python number -> Sym (or _NonFinite / None)"""
    if isinstance(x, Sym):
        return x
    if isinstance(x, bool):
        return SymBool(z3.BoolVal(x))
    if isinstance(x, int):
        return SymInt(z3.IntVal(x))
    if isinstance(x, float):
        if math.isfinite(x):
            return SymReal(_frac(x))
        return _NonFinite(x)
    if isinstance(x, Fraction):
        return SymReal(_frac(x))
    return None


def _num(s):
    """numeric z3 term of a Sym (bools become 0/1)"""
    if isinstance(s, SymBool):
        return z3.If(s.e, z3.IntVal(1), z3.IntVal(0))
    return s.e


def _isreal(s):
    return isinstance(s, SymReal)


def _pair(a, b):
    """coerce two lifted operands to a common numeric sort"""
    ea, eb = _num(a), _num(b)
    if _isreal(a) or _isreal(b):
        if not _isreal(a):
            ea = z3.ToReal(ea)
        if not _isreal(b):
            eb = z3.ToReal(eb)
        return ea, eb, True
    return ea, eb, False


def _floor_term(x):
    """integer term n with n <= x < n+1 (integer + fraction decomposition)"""
    ctx = current()
    x = z3.simplify(x)
    if z3.is_rational_value(x):
        fr = Fraction(x.numerator_as_long(), x.denominator_as_long())
        return z3.IntVal(math.floor(fr))
    if z3.is_app_of(x, z3.Z3_OP_TO_REAL):
        return x.arg(0)
    key = x.get_id()
    hit = ctx.floor_cache.get(key)
    if hit is not None:
        return hit[1]
    n = ctx.fresh(z3.IntSort(), 'fl')
    ctx.add(z3.And(z3.ToReal(n) <= x, x < z3.ToReal(n) + 1))
    ctx.floor_cache[key] = (x, n)   # keep x alive: ids are only unique among live terms
    return n


def bind(e):
    """name a compound term by a fresh constant (keeps later terms small)"""
    ctx = current()
    e = z3.simplify(e)
    if e.num_args() == 0 or ctx is None:
        return e
    v = ctx.fresh(e.sort(), 'b')
    ctx.add(v == e)
    return v


def ite(c, a, b):
    """If(c,a,b), decided by the solver where the path condition implies c or not c"""
    ctx = current()
    d = ctx.decide(c)
    if d is True:
        return a
    if d is False:
        return b
    return bind(z3.If(c, a, b))


class Sym:
    PYTYPE = object
    __slots__ = ('e',)

    def __init__(self, e):
        self.e = e

    # --- things that would silently concretise
    def _placeholder(self):
        ctx = current()
        if ctx is not None and not ctx.in_nofmt:
            if 'fmt-of-symbol' not in ctx.flags and os.environ.get('SYMX_DEBUG_FMT'):
                import traceback
                traceback.print_stack(limit=8)
            ctx.flags.add('fmt-of-symbol')
        return PLACEHOLDER

    def __repr__(self):
        return self._placeholder()

    def __str__(self):
        return self._placeholder()

    def __format__(self, spec):
        return self._placeholder()

    def __hash__(self):
        return hash(_concrete_for_hash(self))


def _concrete_for_hash(s):
    ctx = current()
    if isinstance(s, SymBool):
        return bool(ctx.branch(s.e))
    if isinstance(s, SymInt):
        return ctx.concretize(s)
    # real: integral values hash like ints
    n = _floor_term(s.e)
    if ctx.branch(z3.ToReal(n) == s.e):
        return ctx.concretize(SymInt(n))
    ctx.flags.add('hash-of-nonintegral-real')
    return 0.5


def _cmp(op):
    def f(self, other):
        o = _lift(other)
        if o is None:
            return NotImplemented
        if isinstance(o, _NonFinite):
            v = o.v
            if v != v:  # nan
                return op == 'ne'
            pos = v > 0
            return {'lt': pos, 'le': pos, 'gt': not pos, 'ge': not pos, 'eq': False, 'ne': True}[op]
        if isinstance(self, SymBool) and isinstance(o, SymBool) and op in ('eq', 'ne'):
            r = self.e == o.e
            return SymBool(r if op == 'eq' else z3.Not(r))
        a, b, _ = _pair(self, o)
        r = {'lt': lambda: a < b, 'le': lambda: a <= b, 'gt': lambda: a > b,
             'ge': lambda: a >= b, 'eq': lambda: a == b, 'ne': lambda: a != b}[op]()
        return SymBool(r)
    return f


def _nonfinite_arith(op, sym, nf, reflected):
    """IEEE outcomes of <sym> op <nan/inf> for a finite sym"""
    v = nf.v
    if v != v:
        return v
    if op in ('add',):
        return v
    if op == 'sub':
        return v if reflected else -v
    if op == 'mul':
        ctx = current()
        z = _num(sym)
        zero = z3.RealVal(0) if _isreal(sym) else z3.IntVal(0)
        if ctx.branch(z == zero):
            return math.nan
        return v if ctx.branch(z > zero) else -v
    if op == 'truediv':
        if reflected:   # inf / sym
            ctx = current()
            z = _num(sym)
            zero = z3.RealVal(0) if _isreal(sym) else z3.IntVal(0)
            if ctx.branch(z == zero):
                raise ZeroDivisionError('float division by zero')
            return v if ctx.branch(z > zero) else -v
        return 0.0
    raise EngineLimit(f'{op} with non-finite float')


def _arith(op, reflected=False):
    def f(self, other):
        o = _lift(other)
        if o is None:
            return NotImplemented
        if isinstance(o, _NonFinite):
            return _nonfinite_arith(op, self, o, reflected)
        x, y = (o, self) if reflected else (self, o)
        a, b, real = _pair(x, y)
        ctx = current()
        if op == 'add':
            r = a + b
        elif op == 'sub':
            r = a - b
        elif op == 'mul':
            r = a * b
        elif op == 'truediv':
            if ctx.branch(b == 0):
                raise ZeroDivisionError('division by zero')
            if not real:
                a, b = z3.ToReal(a), z3.ToReal(b)
            return SymReal(a / b)
        elif op in ('floordiv', 'mod'):
            if ctx.branch(b == 0):
                raise ZeroDivisionError('integer division or modulo by zero')
            if real:
                q = z3.ToReal(_floor_term(a / b))
            else:
                q = z3.If(b > 0, a / b, (-a) / (-b))
            r = q if op == 'floordiv' else a - b * q
        elif op == 'pow':
            bs = z3.simplify(b)
            if z3.is_int_value(bs) and 0 <= bs.as_long() <= 4:
                r = z3.RealVal(1) if real else z3.IntVal(1)
                for _ in range(bs.as_long()):
                    r = r * a
            else:
                raise EngineLimit('pow with symbolic/large exponent')
        else:
            raise EngineLimit(op)
        return SymReal(r) if real else SymInt(r)
    return f


class _Numeric(Sym):
    __slots__ = ()
    __lt__ = _cmp('lt')
    __le__ = _cmp('le')
    __gt__ = _cmp('gt')
    __ge__ = _cmp('ge')
    __eq__ = _cmp('eq')
    __ne__ = _cmp('ne')
    __hash__ = Sym.__hash__
    __add__ = _arith('add')
    __radd__ = _arith('add', True)
    __sub__ = _arith('sub')
    __rsub__ = _arith('sub', True)
    __mul__ = _arith('mul')
    __rmul__ = _arith('mul', True)
    __truediv__ = _arith('truediv')
    __rtruediv__ = _arith('truediv', True)
    __floordiv__ = _arith('floordiv')
    __rfloordiv__ = _arith('floordiv', True)
    __mod__ = _arith('mod')
    __rmod__ = _arith('mod', True)
    __pow__ = _arith('pow')

    def __neg__(self):
        return type(self)(-self.e) if not isinstance(self, SymBool) else SymInt(-_num(self))

    def __pos__(self):
        return self if not isinstance(self, SymBool) else SymInt(_num(self))

    def __abs__(self):
        e = _num(self)
        r = ite(e >= 0, e, -e)
        return SymReal(r) if _isreal(self) else SymInt(r)

    def __divmod__(self, other):
        return self // other, self % other

    # C-level conversions: only legitimate while building a message text
    def __float__(self):
        ctx = current()
        if ctx is not None and ctx.in_nofmt:
            return 0.0
        raise EngineLimit('float() of a symbolic value at a C boundary')

    def __int__(self):
        ctx = current()
        if ctx is not None and ctx.in_nofmt:
            return 0
        raise EngineLimit('int() of a symbolic value at a C boundary')


class SymInt(_Numeric):
    PYTYPE = int
    __slots__ = ()

    def __bool__(self):
        return current().branch(self.e != 0)

    def __index__(self):
        ctx = current()
        if ctx.in_nofmt:
            return 0
        return ctx.concretize(self)

    def __round__(self, ndigits=None):
        return self

    def __trunc__(self):
        return self

    __floor__ = __ceil__ = __trunc__

    def to_int(self):
        return self

    def to_real(self):
        return SymReal(z3.ToReal(self.e))

    def to_bool(self):
        return SymBool(self.e != 0)

    @property
    def real(self):
        return self

    def is_integer(self):
        return True


class SymReal(_Numeric):
    PYTYPE = float
    __slots__ = ()

    def __bool__(self):
        return current().branch(self.e != 0)

    def __floor__(self):
        return SymInt(_floor_term(self.e))

    def __ceil__(self):
        return SymInt(-_floor_term(-self.e))

    def __trunc__(self):
        ctx = current()
        d = ctx.decide(self.e >= 0)
        if d is True:
            return SymInt(_floor_term(self.e))
        if d is False:
            return SymInt(-_floor_term(-self.e))
        return SymInt(bind(z3.If(self.e >= 0, _floor_term(self.e), -_floor_term(-self.e))))

    def __round__(self, ndigits=None):
        if ndigits is not None:
            raise EngineLimit('round(x, ndigits) of a symbolic float')
        n = _floor_term(self.e)
        if z3.is_app_of(z3.simplify(self.e), z3.Z3_OP_TO_REAL) or z3.is_int_value(n):
            f = z3.simplify(self.e - z3.ToReal(n))
            if z3.is_rational_value(f) and f.numerator_as_long() == 0:
                return SymInt(n)
        f = self.e - z3.ToReal(n)
        half = z3.Q(1, 2)
        return SymInt(bind(z3.If(f < half, n, z3.If(f > half, n + 1, z3.If(n % 2 == 0, n, n + 1)))))

    def to_int(self):
        return self.__trunc__()

    def to_real(self):
        return self

    def to_bool(self):
        return SymBool(self.e != 0)

    def is_integer(self):
        n = _floor_term(self.e)
        return SymBool(z3.ToReal(n) == self.e)


class SymBool(_Numeric):
    PYTYPE = bool
    __slots__ = ()

    def __bool__(self):
        return current().branch(self.e)

    def __index__(self):
        return int(current().branch(self.e))

    def to_int(self):
        return SymInt(_num(self))

    def to_real(self):
        return SymReal(z3.ToReal(_num(self)))

    def to_bool(self):
        return self

    def __and__(self, other):
        o = _lift(other)
        if isinstance(o, SymBool):
            return SymBool(z3.And(self.e, o.e))
        return NotImplemented

    __rand__ = __and__

    def __or__(self, other):
        o = _lift(other)
        if isinstance(o, SymBool):
            return SymBool(z3.Or(self.e, o.e))
        return NotImplemented

    __ror__ = __or__

    def __invert__(self):
        raise EngineLimit('~ on symbolic bool')

    def __round__(self, ndigits=None):
        return self.to_int()

    def __trunc__(self):
        return self.to_int()


# ---------------------------------------------------------------------------
# fork-free logical helpers for oracles (work on concrete values too)

def _b(x):
    if isinstance(x, SymBool):
        return x.e
    if isinstance(x, Sym):
        return x.to_bool().e
    return z3.BoolVal(bool(x))


def _anysym(xs):
    return any(isinstance(x, Sym) for x in xs)


def And(*xs):
    if not _anysym(xs):
        return all(xs)
    return SymBool(z3.And(*[_b(x) for x in xs]))


def Or(*xs):
    if not _anysym(xs):
        return any(xs)
    return SymBool(z3.Or(*[_b(x) for x in xs]))


def Not(x):
    if not isinstance(x, Sym):
        return not x
    return SymBool(z3.Not(_b(x)))


def Implies(a, b):
    return Or(Not(a), b)


def If(c, a, b):
    """fork-free conditional value"""
    if not isinstance(c, Sym):
        return a if c else b
    la, lb = _lift(a), _lift(b)
    if la is None or lb is None or isinstance(la, _NonFinite) or isinstance(lb, _NonFinite):
        return a if c else b    # forks
    if isinstance(la, SymBool) and isinstance(lb, SymBool):
        return SymBool(z3.If(_b(c), la.e, lb.e))
    ea, eb, real = _pair(la, lb)
    r = z3.If(_b(c), ea, eb)
    return SymReal(r) if real else SymInt(r)


# ---------------------------------------------------------------------------
# model -> python values

def _model_value(model, var):
    v = model.eval(var, model_completion=True)
    if z3.is_int_value(v):
        return v.as_long()
    if z3.is_rational_value(v):
        return Fraction(v.numerator_as_long(), v.denominator_as_long())
    if z3.is_true(v):
        return True
    if z3.is_false(v):
        return False
    if z3.is_algebraic_value(v):
        a = v.approx(20)
        return Fraction(a.numerator_as_long(), a.denominator_as_long())
    raise EngineLimit(f'model value {v!r}')


def extract_model(ctx, extra=()):
    """concrete python values for all declared inputs satisfying pc (+extra).

    real-valued inputs are moved onto exactly representable doubles where
    the constraints allow it, so that the replay sees the same number."""
    s = ctx.solver
    s.push()
    try:
        for c in extra:
            s.add(c)
        if ctx.check() != z3.sat:
            return None
        model = ctx.last_model
        out = {}
        for name, var in ctx.inputs.items():
            val = _model_value(model, var)
            if isinstance(val, Fraction):
                chosen = None
                f0 = float(val)
                for cand in (f0, math.nextafter(f0, math.inf), math.nextafter(f0, -math.inf),
                             float(round(f0)), round(f0, 3), round(f0, 6)):
                    if not math.isfinite(cand):
                        continue
                    c = var == _frac(cand)
                    if ctx.check(c) == z3.sat:
                        chosen = cand
                        s.add(c)
                        if ctx.check() == z3.sat:
                            model = ctx.last_model
                        break
                if chosen is None:
                    chosen = f0
                    out.setdefault('__inexact__', []).append(name)
                out[name] = chosen
            else:
                if isinstance(val, bool):
                    s.add(var if val else z3.Not(var))
                else:
                    s.add(var == val)
                out[name] = val
        return out
    finally:
        s.pop()
