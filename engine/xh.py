"""CrossHair driver: symbolic *strings* (engine B of DESIGN.md)

A harness module lists conditions {'id', 'file', 'function'}; the function lives in
/verif/harness/xh/<file>.py, carries a PEP316 contract ("post: _ == True") and returns
whether the property held for its (symbolic) arguments.  Every condition runs in
its own `crosshair check` process against the regenerated tree; a reachability
twin ("post: _ is not True") must be violated, otherwise the condition is vacuous.
"""
import ast
import json
import os
import re
import subprocess
import sys
import time
from concurrent.futures import ThreadPoolExecutor

HERE = os.path.dirname(os.path.abspath(__file__))
VERIF = os.path.dirname(HERE)
XHDIR = os.path.join(VERIF, 'harness', 'xh')
CROSSHAIR = os.path.join(VERIF, '.venv', 'bin', 'crosshair')

CALL = re.compile(r'when calling (\w+)\((.*)\)\s*$')
RETURNS = re.compile(r'( \(which returns .*\))?( with crosshair\.patch_to_return\(.*\))?\s*$')


def _function_line(path, name):
    with open(path) as f:
        tree = ast.parse(f.read())
    for node in tree.body:
        if isinstance(node, ast.FunctionDef) and node.name == name:
            return node.lineno + 1, node
    raise KeyError(name)


def make_twin(path, name, dest):
    """copy of the module in which <name> has the postcondition 'is not True' (reachability witness)"""
    with open(path) as f:
        src = f.read()
    _, node = _function_line(path, name)
    lines = src.split('\n')
    seg = lines[node.lineno - 1:node.end_lineno]
    out = []
    for ln in seg:
        if ln.strip().startswith('post:'):
            ln = ln[:len(ln) - len(ln.lstrip())] + 'post: _ is not True'
        out.append(ln)
    lines[node.lineno - 1:node.end_lineno] = out
    with open(dest, 'w') as f:
        f.write('\n'.join(lines))
    return dest


def run_one(job, gendir, timeout, scratch):
    modname, cond = job
    path = os.path.join(XHDIR, cond['file'] + '.py')
    line, _ = _function_line(path, cond['function'])
    env = dict(os.environ, PYTHONPATH=os.pathsep.join([gendir, HERE, XHDIR, os.path.join(VERIF, 'harness')]), PYTHONHASHSEED='0',
               FRAPPY_VERIF='1')
    res = {'id': cond['id'], 'function': cond['function'], 'file': cond['file'], 'candidates': [], 'errors': [], 'paths': 0}
    t0 = time.time()
    cmd = [CROSSHAIR, 'check', '--report_all', '--per_condition_timeout', str(timeout), f'{path}:{line}']
    try:
        r = subprocess.run(cmd, env=env, capture_output=True, text=True, timeout=timeout * 4 + 120, cwd=scratch)
        out = r.stdout
    except subprocess.TimeoutExpired:
        res['verdict'] = 'timeout'
        res['confirmed'] = False
        res['wall_s'] = round(time.time() - t0, 1)
        return res
    res['wall_s'] = round(time.time() - t0, 1)
    res['output'] = out[-1500:]
    verdict = 'inconclusive'
    for ln in out.splitlines():
        if ': error: ' in ln:
            verdict = 'counterexample'
            m = CALL.search(RETURNS.sub('', ln))
            if m and m.group(1) == cond['function']:
                try:
                    kwargs = _call_kwargs(path, cond['function'], m.group(2))
                    res['candidates'].append({'key': f"{cond['id']}/counterexample", 'module': 'xh:' + cond['file'],
                                              'case': {'id': cond['id'], 'fn': cond['function']}, 'model': _plain(kwargs),
                                              'detail': ln.split(': error: ', 1)[1][:300]})
                except Exception as e:
                    res['errors'].append('can not parse counterexample %r: %r' % (ln, e))
            else:
                # exception inside the contract function or unparsable call
                res['errors'].append('crosshair: ' + ln[-400:])
        elif 'Confirmed over all paths' in ln:
            verdict = 'confirmed'
        elif 'Not confirmed' in ln and verdict != 'counterexample':
            verdict = 'not-confirmed'
        elif 'Unable to meet precondition' in ln and verdict != 'counterexample':
            verdict = 'unable-to-meet-precondition'
    if r.returncode == 2 and verdict == 'inconclusive':
        res['errors'].append('crosshair exit 2: ' + (r.stderr or out)[-600:])
    res['verdict'] = verdict
    res['confirmed'] = verdict == 'confirmed'
    # reachability twin
    twin = make_twin(path, cond['function'], os.path.join(scratch, 'twin_%s_%s.py' % (cond['file'], cond['function'])))
    tline, _ = _function_line(twin, cond['function'])
    try:
        tr = subprocess.run([CROSSHAIR, 'check', '--per_condition_timeout', str(min(timeout, 20)), f'{twin}:{tline}'],
                            env=dict(env, PYTHONPATH=os.pathsep.join([gendir, HERE, os.path.join(VERIF, 'harness'), XHDIR])),
                            capture_output=True, text=True, timeout=200, cwd=scratch)
        res['twin_violated'] = ': error: ' in tr.stdout
    except subprocess.TimeoutExpired:
        res['twin_violated'] = False
    if not res['twin_violated'] and verdict != 'counterexample':
        res['errors'].append(f"{cond['id']}: reachability twin not violated (vacuous condition)")
    return res


def _call_kwargs(path, name, argtext):
    """'a, b=1' of a printed call -> dict of argument values by parameter name"""
    _, node = _function_line(path, name)
    params = [a.arg for a in node.args.args]
    call = ast.parse('f(%s)' % argtext, mode='eval').body
    env = {'__builtins__': {}, 'float': float, 'dict': dict}
    out = {}
    for p, a in zip(params, call.args):
        out[p] = eval(compile(ast.Expression(a), '<arg>', 'eval'), env)
    for kw in call.keywords:
        out[kw.arg] = eval(compile(ast.Expression(kw.value), '<arg>', 'eval'), env)
    return out


def _plain(x):
    if isinstance(x, dict):
        return {k: _plain(v) for k, v in x.items()}
    if isinstance(x, (list, tuple)):
        return [_plain(v) for v in x]
    if isinstance(x, bytes):
        return {'__bytes__': list(x)}
    return x


def _unplain(x):
    if isinstance(x, dict):
        if set(x) == {'__bytes__'}:
            return bytes(x['__bytes__'])
        return {k: _unplain(v) for k, v in x.items()}
    if isinstance(x, list):
        return [_unplain(v) for v in x]
    return x


def run_jobs(jobs, gendir, tier, njobs, verbose=False):
    import tempfile
    scratch = tempfile.mkdtemp(prefix='xh-', dir=os.path.dirname(gendir))
    results = []
    with ThreadPoolExecutor(max_workers=max(1, njobs)) as ex:
        futs = [ex.submit(run_one, job, gendir, job[1].get('timeout', {}).get(tier, 20 if tier == 'quick' else 120), scratch)
                for job in jobs]
        for f in futs:
            r = f.result()
            results.append(r)
            if verbose:
                print('  crosshair %-40s %-28s %ss cand=%d %s' % (r['id'], r.get('verdict'), r.get('wall_s'), len(r['candidates']),
                                                                 r['errors'][:1] or ''), flush=True)
    return results


def replay(cand):
    """run the contract function concretely on the real tree (sys.path already set by the caller)"""
    import importlib
    if XHDIR not in sys.path:
        sys.path.insert(0, XHDIR)
    mod = importlib.import_module(cand['module'][3:])
    fn = getattr(mod, cand['case']['fn'])
    out = {'key': cand['key'], 'reproduced': False, 'keys': [], 'details': [], 'error': None, 'tags': {}}
    try:
        r = fn(**_unplain(cand['model']))
        if r is not True:
            out['reproduced'] = True
            out['keys'] = [cand['key']]
            out['details'] = [repr(r)]
    except Exception as e:
        out['reproduced'] = True
        out['keys'] = [cand['key']]
        out['details'] = ['raised %s: %s' % (type(e).__name__, e)]
    return out
