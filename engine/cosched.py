"""deterministic thread scheduler whose schedule is a symbolic selector

Logical threads are real Python threads running the real code, serialised by a
baton: exactly one of them (or the controller) runs at any time.  Control
changes hands only at *synchronisation points*:

  - acquire / release of the cooperative locks that replace threading.Lock and
    threading.RLock inside the frappy modules a harness patches,
  - wait / set of cooperative events, put / get of cooperative queues,
  - explicit yield points of harness stubs (a fake connection, a fake driver).

At every such point where more than one thread is enabled the next thread is
env.choice(...): a bounded symbolic selector of the path explorer, so every
schedule within the pre-emption bound is one path of the exploration and a
failing schedule is part of the counterexample model (replayed on the real
tree with the same selectors).

Pre-emption bound (bound='preempt'): switching away from a thread that could
continue costs one pre-emption; with the budget used up the running thread
continues until it blocks or ends (switches at blocking points are free
choices).  Delay bound (bound='delay', for 4-5 threads): the default scheduler is
deterministic (continue; on blocking the next enabled thread in round-robin
order) and every skipped thread costs one delay (Emmi/Qadeer/Rakamaric 2011).
"""
import threading as _th
import time as _time


class SchedKill(BaseException):
    """unwinds a logical thread when the exploration of the path is over"""


class Deadlock(Exception):
    pass


class _LT:
    def __init__(self, name, fn, args):
        self.name = name
        self.fn = fn
        self.args = args
        self.baton = _th.Semaphore(0)
        self.state = 'ready'      # ready | blocked | done
        self.can_run = None
        self.timeout_ok = False   # blocked with a time-out: woken by the time-out when nothing else can run
        self.deadline = None      # virtual instant of that time-out
        self.timed_out = False
        self.exc = None
        self.result = None
        self.killed = False
        self.thread = None
        self.ident = None
        self.steps = 0


class Sched:
    current = None   # the active scheduler (one per process at a time)

    def __init__(self, env, name='sch', max_preempt=2, max_steps=4000, stall_s=20.0, bound='preempt'):
        self.env = env
        self.name = name
        self.bound = bound        # 'preempt': pre-emption bounding; 'delay': delay bounding (see run)
        self.max_preempt = max_preempt
        self.max_steps = max_steps
        self.stall_s = stall_s
        self.threads = []
        self.ctrl = _th.Semaphore(0)
        self.by_ident = {}
        self.step = 0
        self.preempts = 0
        self.last = None
        self.trace = []           # (thread name, label) of every synchronisation point passed
        self.deadlock = None
        self.running = False
        self.now = 0.0            # virtual time: advances only when every thread is blocked, to the earliest deadline

    # ---- construction
    def spawn(self, name, fn, *args):
        t = _LT(name, fn, args)
        self.threads.append(t)
        if self.running:
            self._start(t)
        return t

    def _start(self, t):
        t.thread = _th.Thread(target=self._body, args=(t,), name='lt-' + t.name, daemon=True)
        t.thread.start()
        self.by_ident[t.thread.ident] = t

    def time(self):
        return self.now

    def _body(self, t):
        t.baton.acquire()
        try:
            if not t.killed:
                t.result = t.fn(*t.args)
        except SchedKill:
            pass
        except BaseException as e:   # includes the engine's path steering exceptions: re-raised by the controller
            t.exc = e
        finally:
            t.state = 'done'
            self.ctrl.release()

    def me(self):
        return self.by_ident.get(_th.get_ident())

    # ---- called from logical threads
    def yield_point(self, label=''):
        t = self.me()
        if t is None or not self.running:
            return
        if t.killed:
            return    # unwinding: let finally blocks and context managers complete
        self.trace.append((t.name, label))
        self.ctrl.release()
        t.baton.acquire()
        if t.killed:
            raise SchedKill()

    def block(self, can_run, label='', timeout_ok=False, timeout=None):
        """the calling logical thread can not continue before can_run() is true.
        returns False when woken by a time-out instead (time-outs expire in virtual time, only
        when no thread can run)"""
        if timeout is not None:
            timeout_ok = True
        t = self.me()
        if t is None:
            raise Deadlock('%s: the controller thread would block (%s)' % (self.name, label))
        if t.killed:
            raise SchedKill()
        t.state = 'blocked'
        t.can_run = can_run
        t.timeout_ok = timeout_ok
        t.deadline = self.now + (timeout if timeout is not None else 1.0)
        t.timed_out = False
        self.trace.append((t.name, 'block:' + label))
        self.ctrl.release()
        t.baton.acquire()
        t.state = 'ready'
        t.can_run = None
        if t.killed:
            raise SchedKill()
        return not t.timed_out

    # ---- controller
    def _enabled(self):
        out = []
        for t in self.threads:
            if t.state == 'ready' or (t.state == 'blocked' and t.can_run()):
                out.append(t)
        return out

    def _resume(self, t):
        t.steps += 1
        t.baton.release()
        if not self.ctrl.acquire(timeout=self.stall_s):
            import sys
            import traceback
            fr = sys._current_frames().get(t.thread.ident) if t.thread else None
            where = ''.join(traceback.format_stack(fr)[-6:]) if fr else '?'
            raise Deadlock('%s: thread %s did not reach a synchronisation point within %s s (real blocking call?)\n%s\ntrace: %s'
                           % (self.name, t.name, self.stall_s, where, [self.trace[-12:], [(x.name, x.state, x.thread is not None) for x in self.threads]]))

    def run(self):
        """run all spawned threads to completion under the symbolic schedule; returns the threads"""
        if Sched.current is not None:
            raise RuntimeError('nested schedulers')
        Sched.current = self
        self.running = True
        # finalizers of cyclic garbage (e.g. SecopClient.__del__ of an earlier path) must not run at an arbitrary
        # allocation inside a logical thread: they would add synchronisation points that no replay can reproduce
        import gc
        gc_was_enabled = gc.isenabled()
        gc.disable()
        for t in self.threads:
            self._start(t)
        try:
            while True:
                if all(t.state == 'done' for t in self.threads):
                    break
                enabled = self._enabled()
                if not enabled:
                    # time-outs fire only when nothing else can happen (virtual time advances last)
                    sleepers = [t for t in self.threads if t.state == 'blocked' and t.timeout_ok]
                    if not sleepers:
                        self.deadlock = [(t.name, t.state) for t in self.threads]
                        break
                    t = min(sleepers, key=lambda x: x.deadline)     # ties: creation order
                    self.now = max(self.now, t.deadline)
                    t.timed_out = True
                    t.can_run = lambda: True
                    enabled = [t]
                self.step += 1
                if self.step > self.max_steps:
                    raise Deadlock('%s: more than %d scheduling steps' % (self.name, self.max_steps))
                last = self.last
                if self.bound == 'delay':
                    # delay bounding: a deterministic scheduler (the running thread continues; when it blocks, the next
                    # enabled thread in round-robin order) that may be told <= max_preempt times in total to skip a thread
                    order = self.threads
                    i0 = order.index(last) if last in order else 0
                    rr = order[i0:] + order[:i0]
                    if last not in enabled and last in order:
                        rr = rr[1:] + rr[:1]
                    enabled = [t for t in rr if t in enabled]
                    left = self.max_preempt - self.preempts
                    n = min(len(enabled), left + 1)
                    k = 0 if n <= 1 else self.env.choice('%s.s%d' % (self.name, self.step), n)
                    self.preempts += k
                    nxt = enabled[k]
                elif len(enabled) == 1:
                    nxt = enabled[0]
                elif last in enabled and self.preempts >= self.max_preempt:
                    nxt = last
                else:
                    if last in enabled:   # candidate 0 = continue the running thread
                        enabled = [last] + [t for t in enabled if t is not last]
                    nxt = enabled[self.env.choice('%s.s%d' % (self.name, self.step), len(enabled))]
                    if last in enabled and nxt is not last:
                        self.preempts += 1
                self.last = nxt
                self._resume(nxt)
                if nxt.exc is not None and not isinstance(nxt.exc, Exception):
                    raise nxt.exc      # PathAbort / EngineLimit / ReplayMismatch raised inside a logical thread
        finally:
            self._kill_all()
            self.running = False
            Sched.current = None
            if gc_was_enabled:
                gc.enable()
                gc.collect()
        return self.threads

    def _kill_all(self):
        for t in self.threads:
            if t.state != 'done':
                t.killed = True
                t.baton.release()
                self.ctrl.acquire(timeout=5)
        for t in self.threads:
            if t.thread is not None:
                t.thread.join(timeout=5)


def yield_point(label=''):
    s = Sched.current
    if s is not None:
        s.yield_point(label)


def _ident():
    s = Sched.current
    if s is not None:
        t = s.me()
        if t is not None:
            return t
    return _th.get_ident()


class CoRLock:
    """re-entrant lock; acquire and final release are synchronisation points"""
    reentrant = True

    def __init__(self):
        self.owner = None
        self.count = 0

    def acquire(self, blocking=True, timeout=-1):
        yield_point('acquire')
        me = _ident()
        if self.owner is not None and self.owner == me and self.reentrant:
            self.count += 1
            return True
        while self.owner is not None:
            if not blocking:
                return False
            s = Sched.current
            if s is None or s.me() is None:
                raise Deadlock('lock held by %r wanted outside the scheduler' % (getattr(self.owner, 'name', self.owner),))
            if not s.block(lambda: self.owner is None, 'lock', timeout=timeout if timeout is not None and timeout >= 0 else None):
                return False
        self.owner = me
        self.count = 1
        return True

    def release(self):
        if self.owner is None:
            raise RuntimeError('release unlocked lock')
        self.count -= 1
        if self.count == 0:
            self.owner = None
            yield_point('release')

    def locked(self):
        return self.owner is not None

    def _is_owned(self):
        return self.owner == _ident()

    def __enter__(self):
        self.acquire()
        return self

    def __exit__(self, *exc):
        self.release()


class CoLock(CoRLock):
    reentrant = False


class CoEvent:
    def __init__(self):
        self.flag = False

    def is_set(self):
        return self.flag

    isSet = is_set

    def set(self):
        self.flag = True
        yield_point('event-set')

    def clear(self):
        self.flag = False

    def wait(self, timeout=None):
        yield_point('event-wait')
        if self.flag:
            return True
        s = Sched.current
        if s is None or s.me() is None:
            return self.flag    # outside the scheduler: never blocks
        s.block(lambda: self.flag, 'event', timeout=timeout)
        return self.flag


class CoQueue:
    """queue.Queue: put and get are synchronisation points, get blocks while the queue is empty"""

    def __init__(self, maxsize=0):
        self.maxsize = maxsize
        self.items = []

    def qsize(self):
        return len(self.items)

    def empty(self):
        return not self.items

    def full(self):
        return 0 < self.maxsize <= len(self.items)

    def put(self, item, block=True, timeout=None):
        import queue
        yield_point('queue-put')
        while self.full():
            s = Sched.current
            if not block or s is None or s.me() is None:
                raise queue.Full()
            if not s.block(lambda: not self.full(), 'queue-full', timeout=timeout):
                raise queue.Full()
        self.items.append(item)

    def get(self, block=True, timeout=None):
        import queue
        yield_point('queue-get')
        while not self.items:
            s = Sched.current
            if not block or s is None or s.me() is None:
                raise queue.Empty()
            if not s.block(lambda: bool(self.items), 'queue-empty', timeout=timeout):
                raise queue.Empty()
        return self.items.pop(0)

    def put_nowait(self, item):
        return self.put(item, False)

    def get_nowait(self):
        return self.get(False)


class CoQueueModule:
    """stands in for the 'queue' module"""
    Queue = CoQueue

    def __getattr__(self, name):
        import queue
        return getattr(queue, name)


class ThreadHandle:
    """what mkthread returns: the logical thread as a joinable object"""

    def __init__(self, lt):
        self.lt = lt

    def join(self, timeout=None):
        s = Sched.current
        if self.lt.state == 'done':
            return
        if s is None or s.me() is None:
            raise Deadlock('join of %s outside the scheduler' % self.lt.name)
        if s.me() is self.lt:
            raise RuntimeError('cannot join current thread')
        s.block(lambda: self.lt.state == 'done', 'join', timeout=timeout)

    def is_alive(self):
        return self.lt.state != 'done'

    def __eq__(self, other):
        return (isinstance(other, ThreadHandle) and other.lt is self.lt) or other is self.lt

    def __hash__(self):
        return id(self.lt)


def current_thread():
    s = Sched.current
    if s is not None and s.me() is not None:
        return ThreadHandle(s.me())
    return _th.current_thread()


class CoThreading:
    """stands in for the 'threading' module inside a patched frappy module"""

    def __init__(self):
        self.RLock = CoRLock
        self.Lock = CoLock
        self.Event = CoEvent

    def __getattr__(self, name):
        return getattr(_th, name)


def patch_threading(*modules):
    co = CoThreading()
    for m in modules:
        m.threading = co
    return co
