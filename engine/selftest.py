"""concrete literals through whichever frappy tree is first on sys.path.
The runner executes this under the regenerated tree and under the real tree
and requires identical output (validation of the rewrites T1/T2)."""
import math
import logging
logging.disable(logging.CRITICAL)
from frappy.datatypes import FloatRange, IntRange, ScaledInteger, BoolType, EnumType, StringType, BLOBType, \
    ArrayOf, TupleOf, StructOf, TextType, get_datatype, StatusType, LimitsType
from frappy.lib import clamp


def show(label, fn, *args):
    try:
        r = fn(*args)
        print(label, 'OK', type(r).__name__, repr(r))
    except Exception as e:
        print(label, 'EXC', type(e).__name__, str(e)[:80])


VALUES = [0, 1, -1, 3, 13, 14, 1.0, 1.5, -9, 9, 9.0000001, 9.1, 1e-8, 1e308, -1e308, math.inf, -math.inf, math.nan,
          True, False, '1', 'a', 'ab', '', None, [], [1], [1, 2], (1, 2), [1, 2, 3], {}, {'a': 1}, {'a': 1, 'b': 2.5},
          b'', b'ab', 'YWI=', 'YW I=', 10 ** 30, 16777216, 16777217, 'off', 'IDLE', ['a', 'b'], [1, 'x'], {'x': 1.0},
          [100, ''], [400, 'err'], (0, 5), (5, 0), 0.05, 0.15, 2.5, 3.5, -0.5]
TYPES = {
    'F': FloatRange(-9, 9), 'Fu': FloatRange(), 'Fa': FloatRange(0, 10, absolute_resolution=0.1),
    'I': IntRange(-3, 13), 'Iu': IntRange(), 'S1': ScaledInteger(0.1, -1, 9), 'S2': ScaledInteger(3, -9, 300),
    'B': BoolType(), 'E': EnumType('e', a=1, b=2, off=0), 'St': StringType(1, 3), 'Su': StringType(isUTF8=True),
    'T': TextType(), 'Bl': BLOBType(1, 4), 'A': ArrayOf(IntRange(0, 5), 1, 3), 'AF': ArrayOf(FloatRange(0, 5), 0, 2),
    'Tu': TupleOf(IntRange(0, 5), StringType()), 'TS': TupleOf(StringType(), StringType()),
    'Sx': StructOf(a=IntRange(0, 5), b=FloatRange(0, 5), optional=['b']), 'Sy': StructOf(x=FloatRange()),
    'Status': StatusType('IDLE', 'ERROR'), 'L': LimitsType(FloatRange(0, 10)),
}
for tn, t in TYPES.items():
    show(tn + '.datainfo', t.export_datatype)
    show(tn + '.copy', lambda: t.copy().export_datatype())
    show(tn + '.rebuild', lambda: get_datatype(t.export_datatype()).export_datatype())
    for v in VALUES:
        show(f'{tn}({v!r})', t, v)
        show(f'{tn}.validate({v!r})', t.validate, v)
        show(f'{tn}.import({v!r})', t.import_value, v)
        show(f'{tn}.validate({v!r},prev)', lambda: t.validate(v, t.default))
        try:
            ok = t.validate(v)
        except Exception:
            continue
        show(f'{tn}.export({v!r})', t.export_value, ok)
        show(f'{tn}.to_string({v!r})', t.to_string, ok)
        show(f'{tn}.roundtrip({v!r})', lambda: t.import_value(t.export_value(ok)))
    for on, o in TYPES.items():
        show(f'{tn}.compatible({on})', t.compatible, o)
for a in (-1, 0, 0.5, 2):
    for b in (3, -2.5):
        for c in (1, 7):
            show(f'clamp{a,b,c}', clamp, a, b, c)
print('max/min/sorted', max(1, 2.5), min([3, 1]), sorted([3, 1, 2]), max([1, 5], key=lambda x: -x), int('12'), float('1.5'),
      bool([]), isinstance(True, int), type(1.0).__name__)
