#!/bin/sh
# usage: seedeval.sh <PID> <A|B> [check-id ...]   evaluates /tmp/wt-<PID>/seed_<X>.diff
# 1. confirms in the scratch worktree: tests still 301 passed with the change, demo fails with / passes without
# 2. applies the change to /repo, runs the checks, reverts /repo
PID=$1; X=$2; shift 2
CHECKS=${*:-$PID}
WT=/tmp/wt-$PID
OUT=/verif/seeded/$PID-$X
mkdir -p $OUT
cd $WT || exit 2
git checkout -q -- . 
/venv/bin/python demo_$X.py > $OUT/demo_clean.log 2>&1; DC=$?
git apply seed_$X.diff || { echo "patch does not apply in worktree"; exit 2; }
/venv/bin/python demo_$X.py > $OUT/demo_seeded.log 2>&1; DS=$?
T=$(/venv/bin/python -m pytest -q -p no:cacheprovider --timeout=900 --continue-on-collection-errors 2>&1 | tail -1)
git checkout -q -- .
cp seed_$X.diff $OUT/patch.diff; cp demo_$X.py $OUT/demo.py
echo "demo clean exit=$DC seeded exit=$DS tests: $T"
cd /repo
git status --short | grep -v '^??' && { echo "/repo not clean"; exit 2; }
git apply $OUT/patch.diff || { echo "patch does not apply to /repo"; exit 2; }
RES=""
for c in $CHECKS; do
  (cd /verif && timeout 1500 bin/check $c --no-evidence > $OUT/check_$c.log 2>&1); rc=$?
  RES="$RES $c:exit=$rc"
  grep -m3 "violation key" $OUT/check_$c.log | cut -c1-260
done
git checkout -q -- .
echo "RESULT $PID-$X demo_clean=$DC demo_seeded=$DS tests='$T' checks:$RES"
