#!/usr/bin/env python3
"""adds the 'needs' text to every seeded/<id>/meta.json and writes seeded/SUMMARY.md"""
import json
import os

VERIF = os.path.dirname(os.path.dirname(os.path.abspath(__file__)))
NEEDS = {
 'C01-A': ('IntRange.__call__ converts through the float image', 'an integer beyond 2**53 that a double can not represent', 'caught at once (witness replay of a large odd int); explicit bigint cases added later'),
 'C01-B': ('ArrayOf.validate pads a shorter previous value by the wrong amount', 'a non-empty previous value shorter than the new value near maxlen', 'caught at once'),
 'C02-A': ('scale in the exported datainfo rounded to 6 significant digits', 'a scale with more than 6 digits (2**-10, 1/3) and a client that rebuilt the datatype', 'strengthened: scale catalogue extended'),
 'C02-B': ('IntRange int(fvalue)', 'integers beyond 2**53', 'caught at once'),
 'C03-A': ('ScaledInteger.export_datatype truncates instead of rounding', 'a grid aligned decimal limit whose quotient lands just below the integer in IEEE arithmetic (0.3/0.1)', 'strengthened: IEEE lemma engine (engine/fp.py) built for it'),
 'C03-B': ('IntRange.compatible(enum) checks only the end points', 'a range spanning a gap of the enum', 'caught at once'),
 'C04-A': ('dispatcher falls back to the internal attribute name', 'a request using the internal name of an unexported / custom-named accessible', 'caught at once'),
 'C04-B': ('dispatcher no longer validates with previous=', 'a partial struct in a change request', 'caught at once'),
 'C05-A': ('recovery to the same value not treated as a change', 'value, error, same value again within the omit window', 'strengthened: oracle on the cache itself added (before any agent ran)'),
 'C05-B': ('broadcast moved outside the update lock', 'two threads updating one parameter, T1 descheduled between cache update and send', 'missed by the sequential harness; caught since harness/C05_races.py explores thread schedules (cosched)'),
 'C06-A': ('optional=[] of a struct not exported', 'a struct without optional members and a payload omitting a member', 'strengthened: struct without optional members + command argument probes added'),
 'C06-B': ('unexported module keeps its wire names', 'a request aimed at a module configured with export=False', 'caught at once'),
 'C07-A': ('newline scan offset not reset', 'a segment boundary inside a line followed by a segment with the rest plus a shorter complete line', 'caught at once'),
 'C07-B': ('json.dumps(ensure_ascii=False) in the frame encoder', 'a reply echoing a lone surrogate', 'caught at once (catalogue line with \\\\ud800)'),
 'C08-A': ('broadcast_event mutates the stored subscriber set', 'a parameter scope entry exists, a globally active connection sees an update, then deactivates', 'strengthened: final quiescence phase added'),
 'C08-B': ('activate registers the connection after sending the snapshot', 'a driver update between snapshot and registration', 'missed by the sequential harness; caught since harness/C08_races.py explores thread schedules (patch rebased and demo adapted after fix 1d380e3)'),
 'C09-A': ('Command.clone shares argument/result datatypes', 'plain-method override of a struct-argument command, or run-time mutation of a command datatype', 'strengthened: struct-argument command + mutation of a command datatype added'),
 'C09-B': ('bare property override written into the base Property', 'a two-level chain of bare-value overrides of one module property', 'strengthened: property-two-level hierarchy added'),
 'C10-A': ('write wrapper binds the class level validator', 'limits overridden in the configuration and a write not going through the dispatcher', 'caught at once'),
 'C10-B': ('needscfg only enforced without default', 'needscfg=True parameter with a default, value omitted', 'strengthened: such a parameter added to the catalogue class'),
 'C11-A': ('late error reply falls through to the unknown-request slot', 'time-out of request 1, unknown-action request 2, late error reply of 1', 'caught at once'),
 'C11-B': ('request registered only after send', 'the connection breaks exactly at send time', 'strengthened: break-at-send step added'),
 'C12-A': ('callback dispatch iterates the live list', 'a one-shot callback (UnregisterCallback) followed by another callback on the same key', 'strengthened: one-shot callbacks added'),
 'C12-B': ('IntRange int(fvalue)', 'integer beyond 2**53 through client and node', 'strengthened: wide int parameter with large odd values added'),
 'C13-A': ('list of due slow polls not consumed', 'a polled read failing repeatedly with the same error', 'strengthened: persistent failure scenario + never-sleeps detection added'),
 'C13-B': ('setFastPoll ignored when the flag does not change', 'setFastPoll(True, 2.0) followed by setFastPoll(True, 0.25)', 'strengthened: fast-twice scenario added'),
 'C14-A': ('pending request may interrupt a running cleanup', 'a cleanup lasting more than one cycle and another start/stop meanwhile', 'caught at once (after the chain-completion check added during the build)'),
 'C14-B': ('start without cleanup keeps the cleanup of the previous run', 'start(A, cleanup=c), A finishes, start(B) without cleanup, B interrupted', 'strengthened: starts without cleanup added'),
 'C15-A': ('module marked initialised before its initialisation', 'a cyclic attachment graph', 'caught at once'),
 'C15-B': ('MultiEvent flag never cleared once set', 'an early poll thread finishing before a later module registers its trigger', 'strengthened: eager/deferred thread schedule selector added'),
 'C16-A': ('stale input flushed before the wait_before sleep', 'wait_before > 0 and data arriving during the wait', 'strengthened: stale-wait kernel added'),
 'C16-B': ('closeConnection resets the rate limiter', 'a device accepting and dropping connections', 'strengthened: flapping kernel added'),
 'C17-A': ('target removed before the rename', 'a crash or error between remove and rename', 'caught at once'),
 'C17-B': ('only JSONDecodeError caught when loading', 'a stored file that is not valid UTF-8 (ValueError but not JSONDecodeError)', 'caught at once'),
 'C18-A': ('own control switched on before the others are switched off', 'switching off the previous controller fails', 'strengthened: failing deactivation added'),
 'C18-B': ('write of the float returns the requested instead of the actual value', 'the driver ends up at another index than requested', 'strengthened: index fallback added'),
 'C19-A': ('description truncated by raw byte budget', 'an over-long description containing characters that need JSON escapes', 'caught at once'),
 'C19-B': ('only JSONDecodeError caught in the receive loop', 'a datagram that is not valid UTF-8', 'caught at once'),
 'C20-A': ('rotation slice files[:-(N-1)]', 'retention exactly 1', 'caught at once'),
 'C20-B': ('subscription removed before the level is validated', 'a valid logging request followed by a rejected one on the same module', 'caught at once'),
 'C01-C': ('FloatRange.__call__ no longer maps +-inf to the largest double', 'an Infinity token offered to a double', 'caught at once'),
 'C01-D': ('ScaledInteger tolerance band max(|value|*rel, scale)', 'limits more than 8e6 grid steps from zero and a candidate a few steps outside', 'strengthened: scaled shapes with concrete limits far from zero added'),
 'C02-C': ('string length counted in UTF-8 bytes', 'a non-ASCII string that fits in characters but not in bytes', 'caught at once'),
 'C02-D': ('client flag not propagated to nested datatypes', 'a nested struct with optional members and a value omitting one', 'strengthened: partial client structs (nested) added'),
 'C03-C': ('copied / rebuilt struct shares its optional list', 'in-place change of the twin\'s optional members', 'strengthened: optional-list isolation added'),
 'C03-D': ('StructOf.compatible loops over the target\'s members', 'source struct with a member unknown to the target', 'caught at once'),
 'C04-C': ('automatic limit check skipped when a check hook is inherited', 'check hook in an ancestor class, limit parameters in a subclass', 'strengthened: inherited-limits scenario added'),
 'C04-D': ('argument-less command accepts falsy payloads', 'do m:cmd 0 / false / [] / ""', 'caught at once'),
 'C05-C': ('changed value with an older time stamp stored but not announced', 'explicit time stamp older than the cached one', 'strengthened: announce-with-timestamp operation added'),
 'C05-D': ('most specific subscriber set shadows the others', 'one generally activated connection plus one with a parameter/module scope', 'strengthened: two more connections with narrower scopes added'),
 'C06-C': ('readonly decided by the existence of a write wrapper', 'a parameter made readonly by the configuration / readonly with internal write method', 'caught at once (shipped sim configuration)'),
 'C06-D': ('features collected from the direct bases only', 'a feature inherited through a parent module class', 'caught at once'),
 'C10-C': ('configuration of an unimplemented optional accessible discarded', 'a configuration naming an optional accessible the class does not implement', 'strengthened: such an accessible added to the catalogue class'),
 'C10-D': ('creation failure blacklists the whole python module', 'an unknown parameter property first, further failing modules of the same python module after it', 'caught at once'),
 'C13-C': ('slow-poll age threshold taken from the last module', 'two modules with different slow intervals on one thread', 'strengthened: different-slow-intervals scenario added'),
 'C13-D': ('start-up phase retried while communication fails', 'a communication failure at start-up whose message differs from call to call', 'strengthened: persistent communication failure + stuck-thread detection added'),
 'C14-C': ('status derivation ignores a pending start without cleanup', 'a start request arriving while the run finishes normally in the same cycle, next state without status code', 'strengthened: restart-at-finish scenario in the module harness'),
 'C14-D': ('stop() ignored on an inactive machine', 'start(A) followed by stop() without a cycle in between', 'caught at once'),
 'C15-C': ('empty optional attachment cached as None', 'an unconfigured optional attachment read once, then shutdown', 'caught at once'),
 'C15-D': ('start values written only for polled modules', 'enablePoll=False module with a configured value', 'caught at once'),
 'C16-C': ('readline remembers the scanned offset', 'a multi byte terminator cut across a chunk boundary', 'caught (first as harness error, then as violation after wrapping the framing calls)'),
 'C16-D': ('reconnect callbacks skipped when the marker is "connected"', 'disconnect, reconnect, second disconnect, reconnect at the first attempt', 'caught at once'),
 'C17-C': ('snapshot marked saved before the rename', 'an I/O error exactly at the rename', 'caught at once'),
 'C17-D': ('given flag only for parameters with a write method', 'a readonly persistent parameter configured and stored with different values', 'strengthened: readonly persistent parameter added'),
 'C18-C': ('insideRW counter not restored after an exception', 'one failing member read during a struct read, further operations afterwards', 'strengthened: failing-struct-read operation added'),
 'C18-D': ('automatic limit check skipped when a check hook is inherited', 'check hook in an ancestor, limits in a subclass', 'strengthened: hook-in-ancestor layout added'),
 'C20-C': ('rotation sorts by modification time', 'an old log file touched recently', 'caught at once'),
 'C20-D': ('connection reset only if it was generally activated', 'logging enabled without activate, then disconnect', 'caught at once'),
 'C05-E': ('callbacks and broadcast moved out of the update lock', 'two threads: T1 stored 1.0 and left the lock, pre-empted at the send; T2 assigns 2.0 and is delivered first', 'caught at once by C05_races (symbolic schedule)'),
 'C05-F': ('activate registers the connection after the snapshot', 'activation pre-empted during the snapshot while a poller thread reads a new value / an error / a recovery', 'strengthened: activation as a racing thread operation added to C05_races'),
 'C07-E': ('send lock guards only the running test, sendall outside', 'connection thread pre-empted inside sendall, poller thread broadcasts an update to the same connection', 'caught at once by C07_races'),
 'C07-F': ('broadcast iterates the live set of active connections', 'a connection closes (remove_connection) while another thread is inside the broadcast loop', 'caught at once by C07_races (exception in the broadcasting thread)'),
 'C08-E': ('activate registers the connection after the snapshot loop', 'driver update between the snapshot of its module and the registration', 'caught at once by C08_races'),
 'C08-F': ('dispatcher notification moved out of the update lock', 'two announcers, or an announcer and an activation, interleaved between store and send', 'caught at once by C08_races'),
 'C11-E': ('transmit thread registers the request after sending it', 'reply arrives between send and registration', 'caught at once by C11_races (real tx/rx threads under a symbolic schedule)'),
 'C11-F': ('connect() tests self.io before taking the lock', 'two callers run into connect() of an unconnected client at once', 'strengthened: fresh-connect scenario (real connect() over a fake AsynConn) added to C11_races'),
 'C16-E': ('wait_before sleep and garbage flush moved out of the communicator lock', 'caller B flushes while caller A waits for the rest of its reply', 'caught at once by C16_races'),
 'C16-F': ('reconnect time stamp set after the attempt', 'two callers arrive while disconnected and the interval has elapsed; the first attempt is refused', 'strengthened: reconnect race scenario added to C16_races'),
 'C09-E': ('datatype copy skipped for datatypes without properties of their own', 'a tuple/struct parameter with $ units and two modules with different main units, or a run-time change of a member limit', 'strengthened: container parameters with main-unit members, a configured main unit and member mutations added to the catalogue'),
 'C09-F': ('feature list cached per class (found through inheritance)', 'a module of the base class created before the first module of a subclass adding a Feature mixin', 'strengthened: feature-mixin hierarchy added'),
 'C12-E': ('client memoises identifier resolution without the action', 'bare module shorthand used in a changed message and in an update on one connection', 'strengthened: shorthand update of the main value added to the message alphabet'),
 'C12-F': ('IntRange converts through a float', 'integers beyond 2**53', 'caught at once (end-to-end pbig)'),
 'C19-E': ('identity-fits test on the raw byte length', 'equipment id with characters needing a JSON escape, within 5 bytes of the limit', 'caught at once'),
 'C19-F': ('receive buffer enlarged to 64k', 'a datagram nested deeper than the recursion limit (longer than the old buffer)', 'strengthened: datagrams longer than the receive buffer (deep nesting) added'),
 'C04-G': ('automatic limit check installed only if no check method is inherited (hasattr)', 'check hook in a base class, limit parameters added in a subclass', 'caught at once (inherited-limits and generated classes)'),
 'C04-H': ('command without argument tests the payload for truth instead of None', 'do with an empty non-null payload (0, false, "", [], {}) on a command without argument', 'caught at once'),
 'C06-G': ('interface class and features computed in one loop over the MRO that stops at the interface class', 'a feature mixin listed after the interface class', 'strengthened: feature-last / feature-both class variants added'),
 'C06-H': ('write method looked up instead of the readonly flag', 'a configuration locking a writable parameter, or a readonly parameter with an internal write method', 'caught at once (shipped configuration)'),
 'C10-G': ('start-up writes only for modules with enablePoll', 'a class with enablePoll = False and a configured value for a parameter with a write method', 'strengthened: third module without polling added'),
 'C10-H': ('value properties popped from the configuration dict while applying it', 'the same loaded configuration applied a second time (restart)', 'strengthened: restart with the same configuration object added'),
 'C13-G': ('PollInfo remembers its own normal interval', 'fast polling on, pollinterval changed meanwhile, fast polling off', 'strengthened: change-interval-while-fast scenario added'),
 'C13-H': ('raising method appended only if not already last', 'a SECoP error raised by doPoll itself, not inside a read method', 'strengthened: dopoll-raises-directly scenario added'),
 'C15-G': ('initialised flag set only after a successful initialisation', 'a module failing in earlyInit/initModule that is requested again', 'strengthened: exactly-once also checked in rejected (acyclic) configurations'),
 'C15-H': ('shutdown order by a breadth-first walk', 'a module reached through two attachment paths of different length', 'strengthened: two attachments per module (out-degree 2 graphs) added'),
 'C18-G': ('generated float write returns the value of the requested index', 'a driver whose index write returns another index than requested', 'caught at once'),
 'C18-H': ('insideRW guard as a context manager without try/finally', 'a struct write failing inside a member, then a single member write', 'caught at once'),
 'C01-I': ('IntRange builds its result from the float', 'integers beyond 2**53 with limits wide enough to admit them', 'strengthened: wide concrete integer ranges added (the symbolic limits made the harness itself fail under this change); runner gives up early when a change breaks the harnesses wholesale'),
 'C01-J': ('StructOf.validate skips members equal to the previous value', 'a struct with an enum member, previous holding member k, candidate k plus a fraction passed to validate directly', 'strengthened: direct validate(value, previous) path with enum members added'),
 'C02-I': ('ScaledInteger caches 1/scale at construction', 'the scale changed after construction (setProperty, forwarded by an array, Param(scale=...))', 'strengthened: rescaled scenario added'),
 'C02-J': ('IntRange takes the integer from the float', 'integers beyond 2**53', 'caught at once'),
 'C03-I': ('IntRange.compatible(EnumType) counts members instead of probing', 'an enum with holes inside the range and extra members outside', 'strengthened: such an enum added to the pairings'),
 'C03-J': ('StructOf caches the members part of its datainfo', 'export, then a nested member property changes, then export / rebuild / copy', 'strengthened: export-mutate-export scenario added'),
 'C14-I': ('module status derived from the cleanup reason instead of the pending request', 'a cleanup lasting more than one cycle and a request of the other kind arriving during it', 'caught at once'),
 'C14-J': ('second stop dropped while a stop-caused cleanup is running', 'stop, start and stop again during a multi-cycle cleanup', 'caught at once'),
 'C17-I': ('stored falsy value replaced by the default on load', 'last saved value 0 / False / empty', 'caught at once'),
 'C17-J': ('temp file renamed over the target before it is closed', 'a crash or an I/O error between rename and close with buffered file data', 'strengthened: buffered file model (data reaches the disk at close) added as a selector'),
 'C20-I': ('reset of a connection skipped unless it is in a logging set that a single-module off empties', 'logging A on, logging B off, then *IDN? or disconnect', 'caught at once'),
 'C20-J': ('rotation keeps a cached file list', 'repeated rotations to the same file name after days without a record', 'strengthened: same-day rollovers added'),
 'C07-K': ('ingest remembers how far the buffer was scanned', 'a segment boundary inside a line and further short lines in the completing segment', 'caught at once'),
 'C07-L': ('frames encoded with ensure_ascii=False', 'an escaped lone surrogate echoed by a UTF-8 string parameter', 'caught at once'),
 'C09-K': ('datatype copy skipped for datatypes without own properties', 'tuple/struct/enum parameters with $ units or run-time member changes', 'caught at once'),
 'C09-L': ('multiple inheritance test looks at the direct bases only', 'a plain mixin listed after the owning class, a branch removing the parameter, two plain mixins', 'strengthened: mixin-after / two-plain-mixins / branch-removes hierarchies added'),
 'C11-K': ('final part of disconnect() under the client lock', 'the connection drops while connect() still waits for the description', 'strengthened: peer dropping in the middle of the handshake (single caller) added to C11_races'),
 'C11-L': ('transmit thread registers the request after sending it', 'reply arrives between send and registration', 'caught at once'),
 'C12-K': ('shorthand identifier resolution cached without the action', 'changed <module> and update <module> on one connection', 'caught at once'),
 'C12-L': ('ScaledInteger.export_value rounds with int(x + 0.5)', 'negative scaled values', 'strengthened: end-to-end case with a scaled parameter whose range includes negative values'),
 'C16-K': ('garbage flush hoisted before the wait_before pause', 'wait_before > 0 and a late line arriving during the pause', 'caught at once'),
 'C16-L': ('readline searches the terminator from a remembered offset', 'a multi byte terminator cut across a chunk boundary', 'caught at once'),
 'C19-K': ('disable decision counts characters instead of bytes', 'an equipment id with multi byte or escape-needing characters near the limit', 'caught at once'),
 'C19-L': ('raw byte pre-filter before JSON parsing', 'a request whose value is written with JSON escapes', 'strengthened: escaped spellings of the request added to the datagram catalogue'),
 'C04-M': ('partial struct merged with nothing when the cached value is in error state', 'a struct parameter whose last read failed, then a partial change', 'strengthened: read failure before the partial change added as a precondition'),
 'C04-N': ('automatic limit check not installed when a check method is inherited', 'check hook in a base class, limits in a subclass', 'caught at once'),
 'C05-M': ('clients notified after the update lock is released', 'two threads updating one parameter', 'caught at once (symbolic schedule)'),
 'C05-N': ('activate registers the listener after the snapshot', 'a poller update during the activation', 'caught at once (symbolic schedule)'),
 'C08-M': ('unsubscribe returns early when the module was never subscribed', 'parameter scope active, module scope deactivated, nobody ever activated the module', 'caught at once'),
 'C08-N': ('snapshot built under the update lock but sent after it', 'an update between lock release and send', 'caught at once (symbolic schedule)'),
 'C13-M': ('half slow interval taken from the module owning the thread', 'modules on the poll thread of a module with a much longer slow interval', 'strengthened: owner-slow variant of the different-slow-intervals case added'),
 'C13-N': ('setFastPoll restores a saved interval', 'interval changed during fast polling', 'caught at once'),
 'C17-M': ('rename before close', 'crash or I/O error between rename and close with buffered data', 'caught at once (buffered file model)'),
 'C17-N': ('stored falsy value replaced by the default', 'last saved value 0 / False / empty', 'caught at once'),
 'C18-M': ('insideRW guard as a context manager without finally', 'a struct access failing inside a member, then a member update', 'caught at once'),
 'C18-N': ('checkLimits tests the limit for truth', 'a limit that is exactly 0', 'caught at once'),
 'C09-P': ('HasControlledBy.inputCallbacks becomes one class-level dict shared by all output modules', 'two output modules with a controller each, then a take-over on one of them', 'strengthened: two independent control loops judged by behaviour (the other loop must stay on) and by registered inputs of sibling / later outputs'),
 'C10-P': ('python module of a class put on the failed list when module creation raises a non-ConfigError', 'two erroneous modules from the same python file, the first failing with a wrong-typed parameter property', 'caught at once'),
 'C11-P': ('error reply matched through REQUEST2REPLY.get(action): key (None, ident) for unknown actions', 'a request with an unknown action answered by an error reply', 'caught at once'),
 'C12-P': ('ProxyClient.callback iterates the live callback list', 'a callback unregistering itself with another callback registered after it', 'caught at once'),
 'C14-P': ('only a cleanup caused by start / stop blocks re-interruption', 'an error with a multi-cycle cleanup, then stop or start before it finished', 'caught at once'),
 'C15-P': ('failing earlyInit / initModule leaves the module marked as not initialised', 'a module whose initialisation raises and a second access through an attachment', 'caught at once'),
 'C18-P': ('checkLimits returns after the limits tuple was checked', 'a parameter with a limits tuple AND a min/max pair, value inside the tuple but outside the pair', 'strengthened: limit configuration with both kinds together added'),
 'C20-P': ('per-connection set of logging connections, emptied by any off request, guards the reset', 'logging . debug, logging <one module> off, *IDN? or disconnect, then a record of another module', 'caught at once'),
 'C03-Q': ('ArrayOf maxlen default computed with "or": an explicit maxlen=0 becomes 100', 'an array type admitting only the empty array, rebuilt from its datainfo or copied', 'caught at once'),
 'C06-Q': ('activate looks the module up with get_module instead of the export table', 'a module with export=False and a module-level activate request for it', 'caught at once'),
 'C07-Q': ('*IDN? discards the rest of the receive buffer', '*IDN? in the same segment as (part of) a following request line', 'caught at once'),
 'C08-Q': ('activation snapshot built under the update lock but sent after releasing it', 'an update of an in-scope parameter from another thread between building and sending its snapshot line', 'caught at once'),
 'C13-Q': ('fast-poll switching restores a cached normal interval', 'pollinterval changed while fast polling is on, then fast polling off', 'caught at once'),
 'C16-Q': ('stale input flushed before the wait_before sleep instead of right before the send', 'wait_before > 0 and an unsolicited line arriving inside that window', 'caught at once'),
 'C17-Q': ('loaded entries no longer passed through datatype(value)', 'a stored struct entry lacking a member (outdated file)', 'caught at once'),
 'C19-Q': ('description truncated by UTF-8 bytes of the text instead of by the size of the JSON message', 'a long description whose kept prefix needs JSON escapes', 'caught at once'),
}


def main():
    rows = []
    for sid in sorted(NEEDS):
        mp = os.path.join(VERIF, 'seeded', sid, 'meta.json')
        meta = json.load(open(mp)) if os.path.exists(mp) else {'id': sid}
        change, needs, how = NEEDS[sid]
        meta['change'] = change
        meta['needs_to_manifest'] = needs
        meta['how_caught'] = how
        meta['written_by'] = 'independent sub-agent that was given only the property text and a scratch worktree'
        json.dump(meta, open(mp, 'w'), indent=1)
        c = meta.get('confirmed', {})
        rows.append((sid, change, needs, 'yes' if meta.get('detected') else 'NO', ', '.join(c.get('violation_keys', [])[:1]), how))
    with open(os.path.join(VERIF, 'seeded', 'SUMMARY.md'), 'w') as f:
        f.write('# Seeded changes\n\nEach directory holds patch.diff, demo.py (fails with the change, passes without), NOTES.md of the sub-agent and\n'
                'meta.json (what was run: pinned suite with the change, demo with/without, the check on /repo with the change applied).\n\n')
        f.write('| id | change | needs | detected | first violation key | note |\n|---|---|---|---|---|---|\n')
        for r in rows:
            f.write('| ' + ' | '.join(x.replace('|', '/') for x in r) + ' |\n')
        n = sum(1 for r in rows if r[3] == 'yes')
        f.write(f'\n{n} of {len(rows)} detected' + ('.\n' if n == len(rows) else '; see the rows marked no.\n'))
    print(open(os.path.join(VERIF, 'seeded', 'SUMMARY.md')).read()[-300:])


if __name__ == '__main__':
    main()
