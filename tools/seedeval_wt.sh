#!/bin/sh
# like seedeval.sh but runs the checks against the scratch worktree (FRAPPY_REPO), leaving /repo alone
PID=$1; X=$2; shift 2
CHECKS=${*:-$PID}
WT=/tmp/wt-$PID
OUT=/verif/seeded/$PID-$X
mkdir -p $OUT
cd $WT || exit 2
git checkout -q -- .
/venv/bin/python demo_$X.py > $OUT/demo_clean.log 2>&1; DC=$?
git apply seed_$X.diff || { echo "patch does not apply in worktree"; exit 2; }
/venv/bin/python demo_$X.py > $OUT/demo_seeded.log 2>&1; DS=$?
T=$(/venv/bin/python -m pytest -q -p no:cacheprovider --timeout=900 --continue-on-collection-errors 2>&1 | tail -1)
cp seed_$X.diff $OUT/patch.diff; cp demo_$X.py $OUT/demo.py
RES=""
for c in $CHECKS; do
  (cd /verif && FRAPPY_REPO=$WT VERIF_JOBS=8 timeout 1500 bin/check $c --no-evidence > $OUT/check_$c.wt.log 2>&1); rc=$?
  RES="$RES $c:exit=$rc"
done
git checkout -q -- .
echo "RESULT $PID-$X demo_clean=$DC demo_seeded=$DS tests='$T' checks(worktree):$RES"
