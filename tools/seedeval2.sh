#!/bin/sh
# round 2: evaluates /tmp/wt2-<PID>/seed_<X>.diff in its scratch worktree (FRAPPY_REPO), leaving /repo alone
PID=$1; X=$2
WT=/tmp/wt2-$PID
OUT=/verif/seeded/$PID-$X
mkdir -p $OUT
cd $WT || exit 2
git checkout -q -- .
/venv/bin/python demo_$X.py > /dev/null 2>&1; DC=$?
git apply seed_$X.diff || { echo "patch does not apply in worktree"; exit 2; }
/venv/bin/python demo_$X.py > /dev/null 2>&1; DS=$?
T=$(/venv/bin/python -m pytest -q -p no:cacheprovider --timeout=900 --continue-on-collection-errors 2>&1 | tail -1)
cp seed_$X.diff $OUT/patch.diff; cp demo_$X.py $OUT/demo.py; cp NOTES2.md $OUT/NOTES.md 2>/dev/null
(cd /verif && FRAPPY_REPO=$WT VERIF_JOBS=8 timeout 2000 bin/check $PID --no-evidence > /tmp/seed2_$PID-$X.log 2>&1); rc=$?
git checkout -q -- .
echo "RESULT $PID-$X demo_clean=$DC demo_seeded=$DS tests='$T' check(worktree):exit=$rc $(grep -m2 'violation key' /tmp/seed2_$PID-$X.log | cut -c1-120 | tr '\n' ' ')"
