#!/usr/bin/env python3
"""confirm every kept seeded change: in a fresh scratch worktree (tests still pass, demo fails with / passes without),
then on /repo itself (apply, run the check, undo) - writes seeded/<id>/meta.json"""
import json
import os
import re
import subprocess
import sys

VERIF = os.path.dirname(os.path.dirname(os.path.abspath(__file__)))
REPO = '/repo'
NOTES = {}


def sh(cmd, cwd=None, timeout=3000):
    r = subprocess.run(cmd, shell=True, cwd=cwd, capture_output=True, text=True, timeout=timeout)
    return r.returncode, r.stdout + r.stderr


def main(only=None):
    seeds = sorted(d for d in os.listdir(os.path.join(VERIF, 'seeded')) if re.match(r'C\d\d-[A-Z]$', d))
    for sid in seeds:
        if only and sid not in only:
            continue
        d = os.path.join(VERIF, 'seeded', sid)
        pid = sid.split('-')[0]
        wt = f'/tmp/confirm-{sid}'
        sh(f'git -C {REPO} worktree remove --force {wt}')
        rc, out = sh(f'git -C {REPO} worktree add --detach {wt} HEAD')
        try:
            sh(f'cp {d}/demo.py {wt}/demo_seed.py')
            dc, _ = sh('/venv/bin/python demo_seed.py', cwd=wt)
            rc, out = sh(f'git apply {d}/patch.diff', cwd=wt)
            if rc:
                print(sid, 'PATCH DOES NOT APPLY', out[-200:])
                continue
            ds, dout = sh('/venv/bin/python demo_seed.py', cwd=wt)
            _, tout = sh('/venv/bin/python -m pytest -q -p no:cacheprovider --timeout=900 --continue-on-collection-errors 2>&1 | tail -1', cwd=wt)
        finally:
            sh(f'git -C {REPO} worktree remove --force {wt}')
        # on /repo itself
        rc, st = sh(f'git -C {REPO} status --porcelain --untracked-files=no')
        if st.strip():
            print('REPO NOT CLEAN', st)
            return 2
        rc, out = sh(f'git -C {REPO} apply {d}/patch.diff')
        try:
            crc, cout = sh(f'bin/check {pid} --no-evidence', cwd=VERIF)
        finally:
            sh(f'git -C {REPO} checkout -- .')
        keys = sorted(set(re.findall(r'violation key=(\S+)', cout)))
        meta = {}
        mp = os.path.join(d, 'meta.json')
        if os.path.exists(mp):
            meta = json.load(open(mp))
        meta.update({
            'id': sid, 'breaks_property': pid,
            'confirmed': {
                'pinned_tests_with_change': tout.strip(),
                'demo_exit_without_change': dc, 'demo_exit_with_change': ds,
                'demo_output_with_change': dout.strip().splitlines()[-3:],
                'check_cmd': f'git -C /repo apply seeded/{sid}/patch.diff && bin/check {pid} --no-evidence ; git -C /repo checkout -- .',
                'check_exit_with_change': crc,
                'violation_keys': keys[:6],
                'repo_head': sh(f'git -C {REPO} rev-parse --short HEAD')[1].strip(),
            },
            'detected': crc == 1,
        })
        json.dump(meta, open(mp, 'w'), indent=1)
        print(sid, 'tests:', tout.strip()[:40], 'demo', dc, ds, 'check exit', crc, keys[:2], flush=True)
    return 0


if __name__ == '__main__':
    sys.exit(main(sys.argv[1:]))
