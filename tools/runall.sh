#!/bin/sh
# run every registered check of one tier sequentially; prints one line per check
TIER=${1:-quick}
cd "$(dirname "$0")/.."
for i in 01 02 03 04 05 06 07 08 09 10 11 12 13 14 15 16 17 18 19 20; do
  s=$(date +%s)
  out=$(bin/check C$i --tier $TIER 2>&1); rc=$?
  e=$(date +%s)
  echo "C$i exit=$rc $((e-s))s $(echo "$out" | grep "^C$i" | cut -c1-160)"
  echo "$out" | grep -E "^VIOLATION|^KNOWN-FINDING|^HARNESS-ERROR" | cut -c1-200
done
