#!/usr/bin/env python3
"""regenerate MANIFEST.json from the table below (keeps it valid at all times)"""
import json
import os

HERE = os.path.dirname(os.path.dirname(os.path.abspath(__file__)))
SYMX = 'symbolic execution of the Python source (own executor symx over z3): exhaustive path exploration within the stated bounds, every counterexample model replayed on the unmodified tree'
NOTE = ('floats modelled as reals inside the double range; shape / scenario catalogue, boxes and stubs as listed under "assumptions" '
        'and "coverage" of the evidence file; message texts are not evaluated for symbolic numbers; thread schedules are explored for '
        'C05, C07, C08, C11, C16 only (symbolic schedule selectors, engine/cosched.py), within the stated pre-emption / delay bounds')

CHECKS = {
    'C01': ('model_checking', 'bounded symbolic execution of the real validate/import_value/__call__ code of all ten SECoP datatypes: '
            'limits and numeric payloads are solver variables, z3 decides every branch and every assertion of an independent value-set oracle; '
            'the path tree of every (shape, candidate kind, previous value) case is exhausted', '5/C01'),
    'C02': ('model_checking', 'symbolic valid values (members of the symbolic value set) through export_value/import_value on the node datatype and '
            'on the datatype rebuilt from the exported datainfo; JSON kinds decided per position; JSON text and text forms checked concretely on '
            'the solver-chosen witness model of every path', '5/C02'),
    'C03': ('model_checking', 'rebuild/copy equivalence on symbolic probes, copy isolation, and soundness + completeness of compatible() as one solver '
            'query per path over both types\' symbolic limits and a symbolic probe value', '5/C03'),
    'C04': ('model_checking', 'real Dispatcher + SecNode + RequestHandler loop over a fake-driver module: request sequences (<= 3) with symbolic payloads, '
            'symbolic datatype limits, dynamic limits moved by earlier symbolic requests and a symbolic check-hook threshold; the oracle compares driver log, '
            'cache snapshot, update stream and reply class', '5/C04'),
    'C05': ('model_checking', 'sequential histories (<= 3/4 operations chosen by a symbolic selector) through the real announceUpdate funnel, read/write '
            'wrappers and dispatcher fan-out under a virtual clock with symbolic instants and a symbolic omit window; oracle: folding the received '
            'messages reproduces the cache after every step, and the cache reflects the outcome of every operation; plus 2-3 concurrent announcer threads '
            'under symbolic schedules (cooperative scheduler, <= 2/3 pre-emptions): message order = order of cache changes, stream ends on the cache', '5/C05'),
    'C06': ('model_checking', 'describe output of a catalogue node with symbolic datatype limits: structure/stability/JSON kinds, and for every described '
            'writable parameter the datatype rebuilt from the description accepts a symbolic payload iff the node accepts the change; emitted values '
            'are importable; flags, interface classes and features compared with an independent derivation; undescribed names refused', '5/C06'),
    'C14': ('model_checking', 'the real StateMachine driven by state functions whose behaviour per call is a symbolic code, under operation sequences '
            '{cycle,start,stop} chosen by symbolic selectors, incl. start/stop issued from inside a state function (second actor between two steps); '
            'assertions on the full event log: bounded cycle, never raises, init flag, cleanup exactly once and run to completion, last request wins; '
            'plus a Drivable on HasStates for the busy/final status', '5/C14'),
    'C20': ('model_checking', 'routing: real RemoteLogHandler + setRemoteLogging + dispatcher logging/reset/remove under operation sequences chosen by '
            'symbolic selectors on 2 connections x 2 modules against a table model; rotation: the real doRollover (incl. the mlzlog super call) on a '
            'real scratch directory with a symbolic retention count resolved by the solver value by value, two rollovers', '5/C20'),
    'C17': ('fault_enumeration', 'real PersistentMixin over an in-memory file system: the failing file-system operation of a save (crash or OSError) is a '
            'symbolic selector over all operations, parameter values are symbolic; oracle: target file is the old or the new complete snapshot, a failed save '
            'is retried, reload equals saved values, cfg > file > default, corrupt contents (kind catalogue) never prevent start-up; byte-wise truncation of '
            'real JSON text concretely', '5/C17'),
    'C16': ('model_checking', 'sequential kernels of the real StringIO/BytesIO over a scripted fake connection (real readline/readbytes): stale data, '
            'time-outs under a virtual clock with symbolic recv steps, multicomm delays (symbolic), reconnect rate limit at symbolic instants, '
            'reconnect callbacks, framing under chunkings chosen by symbolic selectors; plus 2-3 concurrent caller threads (communicate/multicomm/writeline) '
            'under symbolic schedules (<= 2/3 pre-emptions): own reply per caller, transactions not interleaved, nothing flushed as garbage', '5/C16'),
    'C13': ('model_checking', 'the real Module.__pollThread body executed in the calling thread in virtual time: symbolic start time, symbolic durations and '
            'symbolic failure kinds of the first poll functions, run-time interval changes at a symbolic wake-up; oracle on the event log: main poll gap '
            '<= interval + one sweep, slow polls not starved, unpolled parameters never read, failures survived, new interval effective from the next wake-up', '5/C13'),
    'C08': ('model_checking', 'sequential histories: activate/deactivate (global, module, parameter and undescribed scopes), *IDN?, disconnect on two '
            'connections interleaved in sequence with updates of symbolic values, chosen by symbolic selectors, against a scope-set model; plus a request '
            'thread racing 1-2 driver threads under symbolic schedules (cooperative scheduler, <= 2/3 pre-emptions at lock and send points): snapshot '
            'before the reply, last message = cache, nothing after the scope was given up, other connection unaffected', '5/C08'),
    'C18': ('model_checking', 'StructParam layouts, FloatEnumParam label sets, limit parameters and HasControlledBy/HasOutputModule groups under operation '
            'sequences chosen by symbolic selectors with symbolic values; assertions: member-wise agreement after every step, value = valuedict[index] and '
            'closest-value write (solver-decided over the symbolic written float), accepted iff inside current symbolic limits, at most one active controller '
            'named by the output', '5/C18'),
    'C15': ('model_checking', 'the real Server._processCfg / SecNode / Attached / MultiEvent / poll thread start-up / shutdown_modules on module sets whose '
            'attachment graph (all graphs with out-degree <= 1 incl. cycles on <= 3/4 modules), declaration order and flags (polling, configured write, '
            'failing init, missing or wrongly typed attachment) are chosen by symbolic selectors; oracle on the event log', '5/C15'),
    'C10': ('model_checking', 'module sections built with the real Mod/Param DSL, processed by the real Server._processCfg; configured value and '
            'min/max overrides are symbolic, the kinds of configuration error present in each of two sections are enumerated; oracle: start value, '
            'described limits, later range checks (symbolic probe), write-once-before-first-poll, rejection with all failing modules reported', '5/C10'),
    'C09': ('other', 'a fixed catalogue of class hierarchies built twice from one factory (alone = reference, and together with overriding subclasses, '
            'configured instances and run-time mutations of one instance); override values, configured overrides and mutations are symbolic; the '
            'description and validation behaviour of every other class/instance must equal the reference. The property quantifies over programs; '
            'only values inside the catalogue programs are solver-quantified', '5/C09'),
    'C11': ('model_checking', 'a real SecopClient without sockets whose transmit/receive loop bodies run one iteration at a time in an order chosen by '
            'symbolic selectors (request mix with equal keys and unknown actions, matching / error / unrelated / unknown replies, caller time-outs, '
            'final disconnect or shutdown) against an independent model of the pending-request table; plus the real transmit/receive thread bodies, 2 callers '
            'and a shutdown thread as real threads under symbolic schedules (delay bound 2/3) against 5 peer scripts: own reply or error, prompt release, '
            'shutdown does not raise, no thread left', '5/C11'),
    'C12': ('model_checking', 'a real SecopClient initialised from the real description processes message sequences (kinds chosen by symbolic selectors, '
            'symbolic values and time stamps vs. a symbolic now) one receive-loop iteration at a time: cache == import of the last message, time stamp '
            'never in the future, callbacks once per message per level, registration reports the cached state; end-to-end composition without sockets '
            'with symbolic values through client export -> real dispatcher -> fake driver -> node export -> client import', '5/C12'),
    'C07': ('model_checking', 'the real TCPRequestHandler over a fake socket with real JSON: a probe line chosen by a symbolic selector from a catalogue of '
            'valid and byte-level mutated request lines between two valid requests, stream cut positions chosen by symbolic selectors; oracle: output '
            'independent of segmentation, one well-formed strict-JSON UTF-8 reply line per request in order, reply action/specifier belong to the '
            'request, neighbours unaffected, other connections untouched; codec inverse on a catalogue. Symbolic strings: CrossHair part', '5/C07'),
    'C19': ('model_checking', 'the real UDPListener over a fake socket module: id/description padding length in a window around the limit and tail '
            'characters chosen by symbolic selectors (ASCII, multi-byte, escape-needing), oracle: <= 508 bytes, valid UTF-8 JSON object with identity '
            'and port, character-prefix truncation only when needed, disabled iff the identity alone does not fit; datagram sequences from a catalogue '
            'chosen by selectors: answers iff discovery request, keeps answering. Symbolic strings: CrossHair part', '5/C19'),
}
PER_NOTE = {
    'C01': 'IEEE rounding of the tolerance band is not modelled (reals); container lengths > 3, depth > 3 outside; symbolic strings only via CrossHair (inconclusive unless confirmed)',
    'C02': 'text form of float leaves and JSON text only on solver-chosen witness models; scaled grid index box +-8 (symbolic part), IEEE kernels by the QF_FP lemmas of C03',
    'C03': 'QF_FP lemmas bounded to a 9/13 bit grid index and 7 catalogue scales, a timed-out lemma is inconclusive; units/fmtstr beyond catalogue literals not covered',
    'C04': 'catalogue module class plus generated one-parameter classes (all flag combinations by selectors) instead of random classes; sequential requests only',
    'C05': 'thread schedules only within <= 2/3 pre-emptions at synchronisation points (locks, send, driver entry) for 2-3 threads',
    'C06': 'catalogue node, generated classes (access x export combinations by selectors) and four shipped configurations instead of random configurations',
    'C07': 'catalogue of request lines (selector) instead of a free byte grammar; asynchronous messages vs. the send lock under symbolic schedules of 2-3 threads (<= 2/3 pre-emptions)',
    'C08': 'thread schedules only within <= 2/3 pre-emptions at synchronisation points for 2-3 threads; three open known findings (late update after deactivate/*IDN?/disconnect)',
    'C09': 'quantifies over values inside a fixed catalogue of class hierarchies, not over programs',
    'C10': 'config dicts built with the real DSL objects; config text files and search path outside',
    'C11': 'thread schedules only within delay bound 2/3 at synchronisation points (queue, event, lock, send/readline, join), 2 callers',
    'C12': 'in-process composition (no TCP, no threads); messages enter through a stub of decode_msg',
    'C13': 'virtual time, horizon K wake-ups, 1-2 modules; real-time behaviour and long horizons outside',
    'C14': 'call budget 3/4 symbolic state calls, maxloops 3; pre-emption inside cycle() NOT claimed',
    'C15': 'all attachment graphs with out-degree <= 1 on <= 3/4 modules incl. cycles and flaws, all graphs with out-degree <= 2 on 3 modules; fake threads (eager or deferred), no real threads',
    'C16': 'concurrent callers only within <= 2/3 pre-emptions at lock and I/O points for 2-3 threads; real sockets/serial lines NOT claimed',
    'C17': 'in-memory file system model (atomic rename of inodes, write-through or buffered-until-close file data by selector); fsync level effects outside',
    'C18': 'catalogue layouts / label sets; two open known findings (see known_findings.json)',
    'C19': 'selectors over padding length window and character catalogue; fake socket',
    'C20': 'routing: 2 connections x 2 modules, record levels incl. critical; rotation: <= 6 dated files, 4 rollovers (2 on the same day), foreign files and the comlog directory present; the handler is given an open stream (mlzlog closes it unconditionally)',
}
NOT_YET = 'check not built yet in this round (planned per DESIGN.md section 5); not claimed until its harness runs clean'
NOT_APPLICABLE = {}


def main():
    checks = []
    for pid in sorted(CHECKS):
        level, text, ref = CHECKS[pid]
        checks.append({
            'property_id': pid,
            'quick_cmd': f'bin/check {pid} --tier quick',
            'thorough_cmd': f'bin/check {pid} --tier thorough',
            'evidence_file': f'evidence/{pid}.json',
            'replay_cmd_template': f'bin/check {pid} --replay {{path}}',
            'engine': 'symx',
            'level_claimed': {'category': level, 'text': text, 'design_ref': 'DESIGN.md ' + ref},
            'level_note': PER_NOTE.get(pid, '') + '. ' + NOTE,
            'technique': SYMX + ('; thread interleavings as symbolic schedule selectors of a cooperative scheduler over real threads '
                                  '(engine/cosched.py), pre-emption / delay bounded' if pid in ('C05', 'C07', 'C08', 'C11', 'C16') else '')
                         + ('; IEEE-754 lemmas in QF_FP for the scaled integer kernels (engine/fp.py)' if pid in ('C02', 'C03') else '')
                         + ('; CrossHair conditions for symbolic strings (engine/xh.py)' if pid in ('C01', 'C04', 'C07', 'C08', 'C12', 'C20') else ''),
        })
    na = []
    for i in range(1, 21):
        pid = 'C%02d' % i
        if pid not in CHECKS:
            na.append({'property_id': pid, 'reason': NOT_APPLICABLE.get(pid, NOT_YET)})
    m = {
        'version': 1,
        'setup_cmd': 'sh bin/setup',
        'hooks': {
            'guard': 'FRAPPY_VERIF',
            'enable': 'no hooks in /repo: all instrumentation lives in the regenerated copy of the source and in harness-level patching of '
                      'module globals; checks export FRAPPY_VERIF=1 for symmetry only',
            'baseline_off_cmd': 'cd /repo && /venv/bin/python -m pytest -ra -q -p no:cacheprovider --timeout=900 --continue-on-collection-errors',
            'source_commits': [],
            'add_only': True,
        },
        'engines': [
            {'name': 'crosshair', 'path': 'engine/xh.py', 'serves_properties': ['C01', 'C04', 'C07', 'C08', 'C12', 'C20'],
             'kind_free_text': 'CrossHair 0.0.110 (symbolic execution with z3) for symbolic string arguments, one process per condition, reachability twin, counterexamples replayed'},
            {'name': 'cosched', 'path': 'engine/cosched.py', 'serves_properties': ['C05', 'C07', 'C08', 'C11', 'C16'],
             'kind_free_text': 'cooperative scheduler: real threads serialised by a baton, the thread to continue at every synchronisation point is a symbolic '
                               'selector of symx; pre-emption / delay bounded, virtual time, schedules replayed on the unmodified tree'},
            {'name': 'fp-lemmas', 'path': 'engine/fp.py', 'serves_properties': ['C03', 'C02'],
             'kind_free_text': 'scaled-integer kernels translated from the AST into z3 QF_FP terms, bounded bit-vector index, sat models replayed on the real code'},
            {'name': 'symx', 'path': 'engine/symx.py', 'serves_properties': sorted(CHECKS),
             'kind_free_text': 'own symbolic executor: operator-overloading symbolic int/real/bool over z3, DFS re-execution of the regenerated '
                               'frappy source (engine/gen.py), every model replayed on the unmodified tree (engine/runner.py)'},
        ],
        'checks': checks,
        'not_applicable': na,
        'notes': 'known_findings.json lists repaired defects (status fixed, suppress nothing) and recorded ones (status open).',
    }
    with open(os.path.join(HERE, 'MANIFEST.json'), 'w') as f:
        json.dump(m, f, indent=1)
    print('MANIFEST.json written:', len(checks), 'checks,', len(na), 'not claimed')


if __name__ == '__main__':
    main()
