"""C08 -- activation / deactivation boundaries while an update runs concurrently

Two or three logical threads run the real code under engine/cosched.py: the
request thread (activate / deactivate / *IDN? / disconnect through the real
Dispatcher.handle_request) and one or two driver threads assigning parameters
(real Parameter.__set__ -> Module.announceUpdate -> Dispatcher.announce_update
-> broadcast_event).  threading.RLock inside frappy.modulebase and
frappy.protocol.dispatcher is the cooperative lock, the connection's send lock
too: control changes hands exactly at lock acquire/release and at the entry of
send_reply (as in the real TCP handler, which takes its send lock there).
Which thread continues at each such point is a symbolic selector."""
import dtmodel as M
import common as C

PROPERTY = 'C08'
FUNCTIONS = ['frappy.protocol.dispatcher.Dispatcher.{handle_request,handle_activate,handle_deactivate,handle__ident,subscribe,unsubscribe,'
             'reset_connection,remove_connection,broadcast_event,announce_update} (2-3 threads)',
             'frappy.modulebase.Module.announceUpdate (update lock)', 'frappy.params.Parameter.__set__']
ASSUMPTIONS = ['schedules: every interleaving of 2-3 threads at synchronisation points (acquire/release of the dispatcher lock, the module '
               'update lock and the connection send lock) with at most 2 (quick) / 3 (thorough, two threads only) pre-emptions; a pre-emption between two '
               'byte codes that are not separated by a synchronisation point is outside the bound',
               'request thread: one request out of activate/deactivate x {global, m, m:_a}, *IDN?, disconnect on a connection that is '
               'inactive or active in a symbolic scope; driver threads: one or two assignments of distinct values to m.a / m.b']
REQUIRED_TAGS = ['race/activate', 'race/deactivate', 'race/preempted']
LIMITS = {'quick': {'max_paths': 40000, 'max_s': 200}, 'thorough': {'max_paths': 400000, 'max_s': 600}}

SCOPES = [None, 'm', 'm:_a']
REQS = ['activate', 'deactivate', 'idn', 'disconnect']


def cases(tier):
    out = []
    for req in REQS:
        for si, scope in enumerate(SCOPES):
            if req in ('idn', 'disconnect') and si:
                continue
            for pre in (None, 'm', 'm:_a', 'all'):
                if req == 'activate' and pre == 'all':
                    continue
                for drivers in ('a', 'ab', 'aa', 'a+a'):
                    out.append({'fn': 'run_race', 'id': f'race/{req}-{scope}/pre-{pre}/drv-{drivers}',
                                'params': {'req': req, 'scope': scope, 'pre': pre, 'drivers': drivers,
                                           # (three threads with 3 pre-emptions: about an hour for the 29 scenarios; kept at 2)
                                           'preempt': 3 if tier == 'thorough' and drivers in ('a', 'ab') else 2}})
    return out


class LockedConn:
    """recording connection; like the TCP handler it takes its send lock before queueing a message"""
    def __init__(self, name, lockcls, clock):
        self.name = name
        self.sent = []
        self.send_lock = lockcls()
        self.clock = clock

    def send_reply(self, msg):
        with self.send_lock:
            self.clock[0] += 1
            self.sent.append((self.clock[0], msg))

    def __hash__(self):
        return sum(map(ord, self.name))    # deterministic iteration order of the dispatcher's listener sets

    def __repr__(self):
        return f'<Conn {self.name}>'


def covered(scopes, par):
    return None in scopes or 'm' in scopes or f'm:_{par}' in scopes


def run_race(env, p):
    import cosched as sched
    import frappy.modulebase as mb
    import frappy.protocol.dispatcher as dp
    saved = mb.threading, dp.threading
    sched.patch_threading(mb, dp)
    try:
        _run_race(env, p, sched)
    finally:
        mb.threading, dp.threading = saved


def _run_race(env, p, sched):
    from frappy.core import Module, Parameter, FloatRange

    class Mod(Module):
        a = Parameter('a', FloatRange(), readonly=False, default=0)
        b = Parameter('b', FloatRange(), readonly=False, default=0)

    srv = C.make_node({'m': {'cls': Mod, 'description': 'm'}})
    disp = srv.dispatcher
    mod = srv.secnode.modules['m']
    clock = [0]
    c0 = LockedConn('c0', sched.CoLock, clock)
    obs = LockedConn('obs', sched.CoLock, clock)     # a second connection, active for everything: must be unaffected
    disp.add_connection(c0)
    disp.add_connection(obs)
    disp.handle_request(obs, ('activate', None, None))
    scopes = set()
    if p['pre'] == 'all':
        for s in SCOPES:
            disp.handle_request(c0, ('activate', s, None))
            scopes.add(s)
    elif p['pre'] is not None:
        disp.handle_request(c0, ('activate', p['pre'], None))
        scopes.add(p['pre'])
    K = 'C08/race/' + p['req']
    n0 = len(c0.sent)
    nobs = len(obs.sent)
    marks = {}

    def request():
        marks['req-start'] = clock[0]
        if p['req'] == 'disconnect':
            disp.remove_connection(c0)
            reply = ('closed',)
        else:
            reply = disp.handle_request(c0, ({'idn': '*IDN?'}.get(p['req'], p['req']), p['scope'], None))
            c0.send_reply(reply)         # as the handler loop does: the reply takes the same send lock
        clock[0] += 1
        marks['req-done'] = clock[0]     # position of the reply in the connection's stream
        return reply

    def driver(assignments):
        def run():
            for par, val in assignments:
                setattr(mod, par, val)
        return run

    plan = {'a': [[('a', 1.5)]], 'ab': [[('a', 1.5), ('b', 2.5)]], 'aa': [[('a', 1.5), ('a', 2.5)]],
            'a+a': [[('a', 1.5)], [('a', 2.5)]]}[p['drivers']]
    s = sched.Sched(env, max_preempt=p['preempt'])
    treq = s.spawn('req', request)
    for i, assignments in enumerate(plan):
        s.spawn(f'drv{i}', driver(assignments))
    s.run()
    env.check(s.deadlock is None, K + '/deadlock', s.deadlock)
    for t in s.threads:
        env.check(t.exc is None, K + '/thread-raised', [t.name, repr(t.exc)])
    env.note('race/' + ('activate' if p['req'] == 'activate' else 'deactivate'))
    if s.preempts:
        env.note('race/preempted')
    env.log('schedule', [x[0] for x in s.trace][:40])
    # expected scopes afterwards
    req, scope = p['req'], p['scope']
    before = set(scopes)
    if req == 'activate':
        scopes.add(scope)
        env.check(treq.result is not None and treq.result[0] == 'active', K + '/reply', repr(treq.result))
    elif req == 'deactivate':
        if scope is None:
            scopes.discard(None)
        elif ':' in scope:
            scopes.discard(scope)
        else:
            scopes = {x for x in scopes if x is None or not (x == scope or x.startswith(scope + ':'))}
    else:
        scopes = set()
    new = c0.sent[n0:]
    done = marks['req-done']
    upd = {}
    for stamp, msg in new:
        if msg[0] in ('update', 'error_update'):
            upd.setdefault(msg[1], []).append((stamp, msg))
    for par in ('a', 'b'):
        key = f'm:_{par}'
        cached = mod.parameters[par].value
        mine = upd.get(key, [])
        if req == 'activate' and covered({scope}, par):
            # before the 'active' reply: at least one update of every parameter in the scope
            env.check(any(stamp < done for stamp, _ in mine), K + '/no-snapshot-before-reply', [key, [x[0] for x in mine], done])
        if covered(scopes, par) and (covered(before, par) or req == 'activate'):
            # once quiet: the last message held equals the cache
            env.check(bool(mine) or covered(before, par), K + '/nothing-delivered', key)
            if mine:
                env.check(M.eq(mine[-1][1][2][0], cached), K + '/last-message-differs-from-cache',
                          [key, mine[-1][1][2][0], cached])
        if not covered(scopes, par) and covered(before, par):
            # scope given up: nothing of it after the reply / the disconnect
            late = [stamp for stamp, _ in mine if stamp > done]
            env.check(not late, K + '/update-delivered-after-scope-was-given-up', [key, late, done])
        if not covered(scopes, par) and not covered(before, par):
            env.check(not mine, K + '/update-delivered-outside-any-scope', key)
        if covered(scopes, par) and covered(before, par):
            # in scope all the time: every change of the cache is delivered, in order
            vals = [m[2][0] for _, m in mine if _ > 0]
            want = [v for assignments in plan for pa, v in assignments if pa == par]
            if req != 'activate':
                env.check(sorted(vals) == sorted(want), K + '/in-scope-updates-not-delivered-exactly-once', [key, vals, want])
    # the observer connection holds every change and ends on the cache
    oupd = {}
    for stamp, msg in obs.sent[nobs:]:
        oupd.setdefault(msg[1], []).append(msg[2][0])
    for par in ('a', 'b'):
        want = [v for assignments in plan for pa, v in assignments if pa == par]
        got = oupd.get(f'm:_{par}', [])
        env.check(sorted(got) == sorted(want), K + '/other-connection-affected', [par, got, want])
        if got:
            env.check(M.eq(got[-1], mod.parameters[par].value), K + '/other-connection-last-differs-from-cache', [par, got])
