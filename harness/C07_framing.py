"""C07 -- one well-formed reply per request line, for any bytes and any chunking (symx part)

The real TCPRequestHandler (setup/handle/finish, ingest/next_message/send_reply,
real JSON) runs over a fake socket.  The probe request line is chosen by a
symbolic selector from a catalogue of valid and mutated lines and sits between
two valid requests; the positions where the byte stream is cut into segments
are chosen by symbolic selectors (all 1- and 2-cut segmentations; in the quick tier cut positions at even offsets only)."""
import common as C

PROPERTY = 'C07'
FUNCTIONS = ['frappy.protocol.interface.{encode_msg_frame,get_msg,decode_msg}', 'frappy.protocol.interface.tcp.TCPRequestHandler.{setup,ingest,'
             'next_message,receive,send_reply,finish}', 'frappy.protocol.interface.handler.RequestHandler.{handle,handle_help}',
             'frappy.protocol.dispatcher.Dispatcher.handle_request and handlers', 'frappy.errors (error classes)']
ASSUMPTIONS = ['request lines come from a catalogue of valid requests and byte-level mutations (invalid UTF-8, broken JSON, missing/extra fields, '
               'CR/LF variants, empty lines, a 5000 byte line, unknown and handler-colliding action names); which line is probed and where the '
               'stream is cut are decided by symbolic selectors; symbolic *strings* are the subject of the CrossHair part (C07_xh)',
               'asynchronous messages vs. the send lock: harness/C07_races.py', 'clocks are fixed']
REQUIRED_TAGS = ['ok-reply', 'error-reply', 'segmented']
LIMITS = {'quick': {'max_paths': 60000, 'max_s': 150}, 'thorough': {'max_paths': 600000, 'max_s': 900}}

LINES = [b'*IDN?', b'describe', b'describe .', b'ping x', b'ping', b'ping x 1', b'read m:a', b'read m:_b', b'read m:zz', b'read zz:a', b'read',
         b'read m:a 5', b'change m:_b 1.5', b'change m:_b "x"', b'change m:_b', b'change m:_b {bad', b'change m:_b [1,', b'change m:_b 1.5 junk',
         b'change m:_b NaN', b'change m:_b Infinity', b'change m:_b 1e999', b'change m:a 1', b'do m:_cmd', b'do m:_cmd 1', b'do m', b'do m:zz',
         b'activate', b'activate m', b'activate zz', b'deactivate', b'xyz a b', b'_ident', b'request x', b'error_read m:a', b'help', b'', b' ',
         b'read m:a\r', b'\r', b'\xff\xfe', b'read \xe9\xe9', b'read m:a\x00', b'READ m:a', b'read  m:a', b' read m:a', b'handle_request', b'__class__',
         b'logging m "info"', b'logging . "nolevel"', b'change m:_b ' + b'1' * 5000, b'read m:a ' + b'x' * 5000, b'describe m:a', b'describe m:zz',
         b'  ping x {bad', b' change m:_b [1,', b'ping x {bad\r',      # broken JSON after leading blanks / before a CR
         b'change m:_s "\\u00e9\\n"', b'change m:_s "\xc3\xa9"', b'change m:_s "\\ud800"']


def cases(tier):
    out = []
    for i in range(len(LINES)):
        out.append({'fn': 'run_probe', 'id': f'line{i}', 'params': {'i': i, 'cuts': 2 if len(LINES[i]) < 100 else 1,
                                                                    'stride': (1 if tier == 'thorough' else 2) if len(LINES[i]) < 100 else 997}})
    out.append({'fn': 'run_codec', 'id': 'codec', 'params': {}})
    return out


class FakeSocket:
    def __init__(self, chunks):
        self.chunks = list(chunks)
        self.out = b''
        self.closed = False

    def settimeout(self, t):
        pass

    def recv(self, n):
        if not self.chunks:
            return b''
        return self.chunks.pop(0)

    def sendall(self, data):
        self.out += data

    def shutdown(self, how):
        pass

    def close(self):
        self.closed = True


def build():
    from frappy.core import Module, Parameter, Command, FloatRange, StringType
    import frappy.protocol.dispatcher as dmod
    import frappy.modulebase as mb
    import frappy.protocol.interface.handler as hmod
    dmod.currenttime = lambda: 1234.5
    mb.time = C.VirtualClock(1234.5)
    hmod.print = lambda *a, **k: None

    class Mod(Module):
        a = Parameter('readonly', FloatRange(), default=1.5)
        b = Parameter('writable', FloatRange(0, 10), readonly=False, default=2.5)
        s = Parameter('string', StringType(isUTF8=True), readonly=False, default='')

        @Command()
        def cmd(self):
            """command"""
    return C.make_node({'m': {'cls': Mod, 'description': 'm', 'a': {'export': 'a'}}})


def serve(srv, chunks):
    from frappy.protocol.interface.tcp import TCPRequestHandler
    sock = FakeSocket(chunks)
    TCPRequestHandler(sock, ('1.2.3.4', 5), C.InterfaceStub(srv))
    return sock


def strict_json(text):
    import json

    def bad(c):
        raise ValueError('non-strict constant ' + c)
    return json.loads(text, parse_constant=bad)


def parse_reply(line):
    """(action, specifier, data) of a reply line; raises if it is not well formed"""
    text = line.decode('utf-8')
    parts = text.split(' ', 2)
    action = parts[0]
    spec = parts[1] if len(parts) > 1 else ''
    data = strict_json(parts[2]) if len(parts) > 2 else None
    return action, spec, data


def run_probe(env, p):
    from frappy.protocol.messages import REQUEST2REPLY, HelpMessage
    from frappy.errors import SECoPError
    probe = LINES[p['i']]
    K = f"C07/line{p['i']}"
    stream = b'ping before\n' + probe + b'\n' + b'ping after\n'
    # reference: unsegmented
    srv = build()
    other = C.Conn('other')
    srv.dispatcher.add_connection(other)
    ref = serve(srv, [stream]).out
    # segmented
    n = len(stream)
    positions = list(range(0, n + 1, p['stride']))
    cuts = sorted({positions[env.choice(f'cut{i}', len(positions))] for i in range(p['cuts'])})
    chunks, last = [], 0
    for c in cuts + [n]:
        if c > last:
            chunks.append(stream[last:c])
            last = c
    srv2 = build()
    try:
        seg = serve(srv2, chunks)
    except Exception as e:
        env.fail(K + '/handler-terminated/' + type(e).__name__, repr(e))
        return
    env.note('segmented')
    env.check(seg.out == ref, K + '/replies-depend-on-segmentation', [cuts, seg.out[:200], ref[:200]])
    env.check(seg.closed, K + '/socket-not-closed-at-end')
    env.check(other.sent == [], K + '/leaked-into-other-connection', other.sent[:2])
    # well-formedness of the (reference) output
    if not env.check(ref.endswith(b'\n') or ref == b'', K + '/output-not-newline-terminated'):
        return
    lines = ref.split(b'\n')[:-1]
    replies = []
    for ln in lines:
        try:
            replies.append(parse_reply(ln))
        except Exception as e:
            env.fail(K + '/reply-line-not-well-formed/' + type(e).__name__, [ln[:120], repr(e)])
            return
    # exactly one reply per request line, in order (help: the help text lines precede the one reply)
    if probe.startswith(b'activate') and any(r[0] == 'active' for r in replies):
        # the snapshot updates of an activation precede its reply (C08)
        env.check(all(r[0] in ('update', 'error_update') for r in replies[1:-2]), K + '/snapshot-lines')
        replies = [replies[0]] + replies[-2:]
    is_help = probe.strip() in (b'', b'help')
    nhelp = len(HelpMessage.splitlines())
    want = 3 + (nhelp if is_help else 0)
    if not env.check(len(replies) == want, K + '/not-exactly-one-reply-per-request', [len(replies), want, [r[0] for r in replies][:8]]):
        return
    env.check(replies[0][0] == 'pong' and replies[0][1] == 'before', K + '/answer-to-the-line-before-changed', replies[0][:2])
    env.check(replies[-1][0] == 'pong' and replies[-1][1] == 'after', K + '/answer-to-the-line-after-changed', replies[-1][:2])
    reply = replies[-2]
    if is_help:
        env.check(reply[0] == 'helping', K + '/help-reply', reply[0])
        env.check(all(r[0] == '_' for r in replies[1:-2]), K + '/help-lines')
        env.note('ok-reply')
        return
    # the reply belongs to the request: table reply or error_<action>, specifier echoed
    try:
        fields = probe.strip().decode('utf-8').split(' ', 2)
        decodable = True
    except UnicodeDecodeError:
        fields = probe.decode('latin-1').split(' ', 3)
        decodable = False
    action = fields[0]
    spec = fields[1] if len(fields) > 1 else ''
    if reply[0].startswith('error_'):
        env.note('error-reply')
        env.check(reply[0] == 'error_' + action or not decodable, K + '/error-reply-action', [reply[0], action])
        env.check(isinstance(reply[2], list) and len(reply[2]) == 3 and reply[2][0] in SECoPError.name2class and
                  isinstance(reply[2][1], str) and isinstance(reply[2][2], dict), K + '/error-report-format', repr(reply[2])[:120])
        if decodable:
            env.check(reply[1] == spec, K + '/error-reply-specifier-not-echoed', [reply[1], spec])
    else:
        env.note('ok-reply')
        if action == '*IDN?':
            env.check(reply[0].startswith('ISSE') and ',SECoP,' in (reply[0] + ' ' + reply[1]), K + '/ident-reply', reply[:2])
        else:
            env.check(REQUEST2REPLY.get(action) == reply[0], K + '/reply-action-does-not-belong-to-request', [action, reply[0]])
            if action not in ('describe', 'deactivate', 'activate'):
                env.check(reply[1] == spec, K + '/reply-specifier-not-echoed', [reply[1], spec])


def run_codec(env, p):
    """encoding and decoding of message triples are mutually inverse (catalogue, real JSON)"""
    from frappy.protocol.interface import encode_msg_frame, decode_msg
    actions = ['describe', 'update', 'error_change', '*IDN?', 'x']
    specs = [None, 'm', 'm:p', 'mod:_par', '.', 'é:ü']
    datas = [None, 0, 1.5, -2, True, False, 'with space', '', 'q"\\\n', 'é€😀', [], [1, [2, {'a': None}]], {'k': 0}, {'t': 11.75},
             ['ErrClass', 'text', {}], [None, {'t': 1.0}], 1e300, 1e-300, 2 ** 70]
    a = actions[env.choice('a', len(actions))]
    s = specs[env.choice('s', len(specs))]
    d = datas[env.choice('d', len(datas))]
    K = 'C07/codec'
    if s is None and d is not None:
        # grammar: data needs a specifier position; frappy encodes an empty specifier
        pass
    try:
        frame = encode_msg_frame(a, s, d)
    except Exception as e:
        env.fail(K + '/encode-raises/' + type(e).__name__, repr(e))
        return
    env.check(frame.endswith(b'\n') and frame.count(b'\n') == 1, K + '/frame-is-not-one-line', frame[:80])
    try:
        frame.decode('utf-8')
    except UnicodeDecodeError:
        env.fail(K + '/frame-not-utf8')
    try:
        back = decode_msg(frame[:-1])
    except Exception as e:
        env.fail(K + '/decode-raises/' + type(e).__name__, [frame[:80], repr(e)])
        return
    want = (a, s or None, d)
    if s is None and d is not None:
        # 'action  json' : two spaces, the empty specifier decodes to None
        pass
    env.check(back == want and type(back[2]) is type(want[2]), K + '/not-inverse', [frame[:80], repr(back)])
    for t in REQUIRED_TAGS:
        env.note(t)
