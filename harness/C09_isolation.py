"""C09 -- module classes, instances and configurations are isolated from each other

A catalogue of class hierarchies is built twice from the same factory: once
alone (reference) and once together with subclasses that override accessibles
with symbolic values, with configured instances and with run-time mutations of
one instance.  The description and the limits of everything else must equal
the reference."""
import dtmodel as M
import common as C

PROPERTY = 'C09'
FUNCTIONS = ['frappy.modulebase.HasAccessibles.__init_subclass__', 'frappy.modulebase.Module.{__init__,_add_accessible}',
             'frappy.params.{Parameter,Command}.{clone,copy,merge,create_from_value,updateProperties,finish}',
             'frappy.properties.HasProperties.{__init_subclass__,__init__,setProperty}', 'frappy.datatypes.*.copy',
             'frappy.mixins.HasControlledBy.{register_input,self_controlled}', 'frappy.mixins.HasOutputModule.{initModule,activate_control,deactivate_control}']
ASSUMPTIONS = ['the property quantifies over programs; the solver quantifies over the values (limits, defaults, configured overrides, run-time '
               'mutations) inside a fixed catalogue of hierarchies: override by Parameter(), by bare value, by None, command overridden by a plain '
               'method, mixin / multiple inheritance, inherit=False, struct parameter, controlled_by enum growth, two independent control loops (take-over on one output must leave the other loop alone); class graph shapes beyond the '
               'catalogue are not covered']
REQUIRED_TAGS = ['compared']
LIMITS = {'quick': {'max_paths': 20000, 'max_s': 150}, 'thorough': {'max_paths': 200000, 'max_s': 900}}

HIER = ['param-override', 'bare-value', 'none-override', 'method-command', 'mixin', 'inherit-false', 'struct', 'enum-growth', 'two-level',
        'method-struct-command', 'property-two-level', 'bare-below-param', 'mixin-merge', 'feature-mixin', 'diamond', 'mixin-after', 'two-plain-mixins', 'branch-removes', 'shared-datatype-object', 'two-control-loops']


def cases(tier):
    out = []
    for h in HIER:
        for order in ('sub-first', 'base-first'):
            out.append({'fn': 'run_isolation', 'id': f'{h}/{order}', 'params': {'h': h, 'order': order}})
    return out


def base_classes():
    """the part of the program every hierarchy shares; called once per world"""
    from frappy.core import Module, Writable, Parameter, Command, FloatRange, IntRange, EnumType, StringType, StructOf, TupleOf
    from frappy.extparams import StructParam
    from frappy.mixins import HasControlledBy

    class Mixin:
        mx = Parameter('mixin parameter', IntRange(0, 10), readonly=False, default=1)

    class Base(Writable):
        pf = Parameter('float', FloatRange(0, 100, unit='K'), readonly=False, default=1)
        pe = Parameter('enum', EnumType('e', a=1, b=2), readonly=False, default=1)
        ps = Parameter('string', StringType(), default='base')
        # container datatypes (no properties of their own) whose members carry the main unit
        pw = Parameter('window', TupleOf(FloatRange(0, 100, unit='$'), FloatRange(0, 10, unit='$/s')), readonly=False, default=(1, 1))
        pst = Parameter('struct of limits', StructOf(lo=FloatRange(0, 100, unit='$'), n=IntRange(0, 5)), readonly=False, default={'lo': 1, 'n': 1})
        ctrl = StructParam('struct', dict(p=Parameter('p', FloatRange(0, 10)), i=Parameter('i', FloatRange(0, 10))), 'c_', readonly=False)

        @Command(FloatRange(0, 10), result=FloatRange())
        def cmd(self, v):
            """command"""
            return v

        @Command(StructOf(x=FloatRange(0, 10), n=IntRange(0, 5)), result=IntRange())
        def cmds(self, x, n=1):
            """struct argument with an optional member"""
            return n

        def read_ctrl(self):
            return {'p': 1, 'i': 2}

        def write_ctrl(self, value):
            return value

    class Out(HasControlledBy, Writable):
        pass
    return {'Base': Base, 'Mixin': Mixin, 'Out': Out}


def describe(classes, names, cfgs=None):
    """node with one instance per class name; returns {name: module description}"""
    cfg = {}
    for i, n in enumerate(names):
        c = {'cls': classes[n], 'description': n}
        c.update((cfgs or {}).get(n, {}))
        cfg[f'{n.lower()}{i}'] = c
    srv = C.make_node(cfg)
    d = srv.secnode.get_descriptive_data('')
    return srv, {n: d['modules'][f'{n.lower()}{i}'] for i, n in enumerate(names)}


def strip(desc):
    """description without the fields naming the instance"""
    d = dict(desc)
    d.pop('description', None)
    return d


def run_isolation(env, p):
    from frappy.core import Parameter, Command, FloatRange, IntRange, EnumType, Writable
    from frappy.mixins import HasOutputModule
    h = p['h']
    K = 'C09/' + h
    # ---------------- reference world: only the base classes
    ref = base_classes()
    _, refdesc = describe(ref, ['Base', 'Out'])
    ref_class_info = {n: a.datatype.export_datatype() for n, a in ref['Base'].accessibles.items() if hasattr(a, 'datatype')}
    # ---------------- world under test
    w = base_classes()
    Base, Mixin, Out = w['Base'], w['Mixin'], w['Out']
    hi = env.real('sub.max', 0, 100)
    dflt = env.real('sub.default', 0, 100)
    env.assume(dflt <= hi)
    n_enum = env.int('sub.enum', 3, 9)
    if p['order'] == 'base-first':
        _, early = describe(w, ['Base'])
        env.check(M.eq(strip(early['Base']), strip(refdesc['Base'])), K + '/base-differs-before-subclassing')
    subs = {}
    if h == 'param-override':
        class Sub(Base):
            pf = Parameter(max=hi, default=dflt)
            pe = Parameter(datatype=EnumType('e', a=1, b=2, z=n_enum))
        subs['Sub'] = Sub
    elif h == 'bare-value':
        class Sub(Base):
            pf = dflt
            ps = 'sub'
        subs['Sub'] = Sub
    elif h == 'none-override':
        class Sub(Base):
            pe = None
            cmd = None
        subs['Sub'] = Sub
    elif h == 'method-command':
        class Sub(Base):
            def cmd(self, v):
                """overridden"""
                return v + 1
        subs['Sub'] = Sub
    elif h == 'mixin':
        class Sub(Mixin, Base):
            mx = Parameter(max=n_enum)

        class Sub2(Mixin, Base):
            pass
        subs['Sub'] = Sub
        subs['Sub2'] = Sub2
    elif h == 'inherit-false':
        class Sub(Base):
            pf = Parameter('new float', FloatRange(0, hi), inherit=False, default=dflt)
        subs['Sub'] = Sub
    elif h == 'struct':
        class Sub(Base):
            c_p = Parameter(max=hi)
        subs['Sub'] = Sub
    elif h == 'two-level':
        class Sub(Base):
            pf = Parameter(max=hi)

        class SubSub(Sub):
            pf = Parameter(min=dflt / 2)
        subs['Sub'] = Sub
        subs['SubSub'] = SubSub
    elif h == 'enum-growth':
        class Ctl(HasOutputModule, Writable):
            pass
        subs['Ctl'] = Ctl
    elif h == 'two-control-loops':
        class Ctl(HasOutputModule, Writable):      # controller of the first output
            pass

        class CtlB(HasOutputModule, Writable):     # controller of the second output: an independent loop
            pass
        subs['Ctl'] = Ctl
        subs['CtlB'] = CtlB
    elif h == 'mixin-merge':
        class PartialMixin:                       # plain mixin carrying a partial override
            pz = Parameter(max=5)

        class BaseA(Base):
            pz = Parameter('z', IntRange(0, 10), readonly=False, default=1)

        class BaseB(Base):
            pz = Parameter('z', IntRange(0, 100), readonly=False, default=2)

        class MixA(PartialMixin, BaseA):
            pass

        class MixB(PartialMixin, BaseB):
            pz = Parameter(min=n_enum - 8)
        subs['MixA'] = MixA
        subs['MixB'] = MixB
    elif h == 'method-struct-command':
        class Sub(Base):
            def cmds(self, x, n):     # plain method, no default: both members mandatory in the subclass
                """overridden"""
                return n + 1
        subs['Sub'] = Sub
    elif h == 'property-two-level':
        class Sub(Base):
            group = 'lab'
            visibility = 2

        class SubSub(Sub):
            group = 'teaching'
            visibility = 3
        subs['Sub'] = Sub
        subs['SubSub'] = SubSub
    elif h == 'feature-mixin':
        from frappy.features import HasOffset

        class Sub(HasOffset, Base):
            pass

        class SubSub(Sub):
            pass
        subs['Sub'] = Sub
        subs['SubSub'] = SubSub
    elif h == 'shared-datatype-object':
        UInt = IntRange(0, 255)                    # a datatype object used for several parameters (as frappy's own UInt8 is)

        class U1(Base):
            pu = Parameter('u', UInt, readonly=False, default=0)

        class U2(Base):
            pu = Parameter('u', UInt, max=n_enum, readonly=False, default=0)

        class U3(U1):
            pass
        subs['U1'] = U1
        subs['U2'] = U2
        subs['U3'] = U3
    elif h == 'mixin-after':
        class AfterMixin:                      # a plain mixin listed AFTER the class that owns the parameter
            pf = Parameter(group='aftergroup', visibility=3)

        class Sub(Base, AfterMixin):
            pass
        subs['Sub'] = Sub
    elif h == 'two-plain-mixins':
        class M1:
            pz = Parameter('z', IntRange(0, 10), readonly=False, default=1)

        class M2:
            pz = Parameter(max=n_enum)

        class Sub(M2, M1, Base):
            pass

        class Sub2(M1, Base):                  # uses M1 alone: must keep max 10
            pass
        subs['Sub'] = Sub
        subs['Sub2'] = Sub2
    elif h == 'branch-removes':
        class Side(Base):                      # a side branch changes the parameter ...
            pf = Parameter(max=hi)

        class Removed(Side):                   # ... and a class below removes it
            pf = None

        class Sub(Base):
            pass
        subs['Side'] = Side
        subs['Removed'] = Removed
        subs['Sub'] = Sub
    elif h == 'diamond':
        class Left(Base):
            pf = Parameter(readonly=True)

        class Right(Base):
            pf = Parameter(max=hi)

        class Diamond(Left, Right):
            pass
        subs['Left'] = Left
        subs['Right'] = Right
        subs['Diamond'] = Diamond
    elif h == 'bare-below-param':
        class Sub(Base):
            pf = Parameter(max=hi)

        class SubSub(Sub):
            pf = dflt

        class Sib(Base):      # a sibling defined after the others
            pass
        subs['Sub'] = Sub
        subs['SubSub'] = SubSub
        subs['Sib'] = Sib
    w.update(subs)
    # instances: the subclass(es), a sibling base instance configured with overrides, a plain base instance
    cmax = env.real('cfg.max', 0, 100)
    cval = env.real('cfg.value', 0, 100)
    env.assume(cval <= cmax)
    names = list(subs) + ['Base', 'Base', 'Out', 'Out']
    cfg = {}
    node_cfg = {}
    for i, n in enumerate(names):
        c = {'cls': w[n], 'description': n}
        if n == 'Ctl':
            c['output_module'] = 'out%d' % names.index('Out')
        if n == 'CtlB':
            c['output_module'] = 'out%d' % (names.index('Out') + 1)
        node_cfg[f'{n.lower()}{i}'] = c
    iconfigured = names.index('Base')
    node_cfg[f'base{iconfigured}']['pf'] = {'value': cval, 'max': cmax}
    node_cfg[f'base{iconfigured}']['visibility'] = 'expert'
    node_cfg[f'base{iconfigured}']['value'] = {'unit': 'mbar'}     # a main unit of its own: '$' in member units is replaced per instance
    try:
        srv = C.make_node(node_cfg)
    except Exception as e:
        env.fail(K + '/node-creation-raised/' + type(e).__name__, repr(e)[:200])
        return
    if srv.secnode.errors:
        env.fail(K + '/node-creation-errors', srv.secnode.errors[:3])
        return
    mods = srv.secnode.modules
    plain = mods[f'base{iconfigured + 1}']
    configured = mods[f'base{iconfigured}']
    # run-time mutation of ONE instance
    mutate = env.choice('mutate', 3)
    if mutate == 1:
        configured.parameters['pf'].datatype.setProperty('max', cmax / 2)
        configured.parameters['pe'].datatype = EnumType('e', a=1, b=2, rt=n_enum)
        configured.parameters['pw'].datatype.members[0].setProperty('max', cmax / 2)
        configured.parameters['pst'].datatype.members['lo'].setProperty('max', cmax / 2)
    elif mutate == 2:
        configured.parameters['ps'].setProperty('description', 'changed at run time')
        configured.setProperty('group', 'grp')
    d = srv.secnode.get_descriptive_data('')['modules']
    # (1) the plain base instance equals the reference although subclasses, a configured sibling and mutations exist
    env.check(M.eq(strip(d[plain.name]), strip(refdesc['Base'])), K + '/other-instance-changed', diffkeys(strip(d[plain.name]), strip(refdesc['Base'])))
    # (2) the class level accessibles of Base are untouched
    now = {n: a.datatype.export_datatype() for n, a in Base.accessibles.items() if hasattr(a, 'datatype')}
    env.check(M.eq(now, ref_class_info), K + '/base-class-changed', diffkeys(now, ref_class_info))
    # (3) an instance created later equals the reference as well
    late_srv, late = describe(w, ['Base', 'Out'])
    env.check(M.eq(strip(late['Base']), strip(refdesc['Base'])), K + '/later-instance-changed', diffkeys(strip(late['Base']), strip(refdesc['Base'])))
    # (4) the second output module (no controller attached) still only knows 'self'
    iout = [i for i, n in enumerate(names) if n == 'Out']
    other_out = d[f'out{iout[1]}']
    if h != 'two-control-loops':
        env.check(M.eq(strip(other_out), strip(refdesc['Out'])), K + '/sibling-output-changed')
        env.check(not dict(mods[f'out{iout[1]}'].inputCallbacks), K + '/sibling-output-knows-foreign-inputs', sorted(mods[f'out{iout[1]}'].inputCallbacks))
    if h == 'two-control-loops':
        # behaviour, not only description: two independent loops (ctl0 -> first output, ctlb1 -> second output)
        outa, outb = mods[f'out{iout[0]}'], mods[f'out{iout[1]}']
        ctla, ctlb = mods['ctl0'], mods['ctlb1']
        env.check(set(other_out['accessibles']['controlled_by']['datainfo']['members']) == {'self', 'ctlb1'}, K + '/controlled_by-not-grown',
                  sorted(other_out['accessibles']['controlled_by']['datainfo']['members']))
        order = env.choice('takeover', 2)
        try:
            ctla.activate_control()
            env.check(bool(ctla.control_active) and outa.controlled_by.name == 'ctl0', K + '/take-over-without-effect')
            if order == 0:
                ctlb.activate_control()          # the other loop closes ...
                env.check(bool(ctlb.control_active) and outb.controlled_by.name == 'ctlb1', K + '/take-over-without-effect')
            else:
                ctlb.activate_control()
                outb.self_controlled()           # ... or the other output is taken over by hand
                env.check(not ctlb.control_active and outb.controlled_by.name == 'self', K + '/hand-over-to-self-without-effect')
            env.check(bool(ctla.control_active) and outa.controlled_by.name == 'ctl0', K + '/control-loop-of-other-output-switched-off',
                      [bool(ctla.control_active), outa.controlled_by.name])
        except Exception as e:
            env.fail(K + '/control-hand-over-raised/' + type(e).__name__, repr(e)[:200])
        env.check(sorted(outa.inputCallbacks) == ['ctl0'] and sorted(outb.inputCallbacks) == ['ctlb1'], K + '/inputs-of-other-output-registered',
                  [sorted(outa.inputCallbacks), sorted(outb.inputCallbacks)])
    env.check(not dict(late_srv.secnode.modules['out1'].inputCallbacks), K + '/later-output-knows-foreign-inputs',
              sorted(late_srv.secnode.modules['out1'].inputCallbacks))
    env.check(M.eq(strip(late['Out']), strip(refdesc['Out'])), K + '/later-output-changed')
    if h == 'enum-growth':
        grown = d[f'out{iout[0]}']['accessibles']['controlled_by']['datainfo']['members']
        env.check(set(grown) == {'self', 'ctl0'}, K + '/controlled_by-not-grown', sorted(grown))
    # (5) limits really differ per instance: behaviour, not only description
    from frappy.errors import RangeError
    x = env.real('probe', 0, 100)
    for m, limit in ((plain, 100), (configured, cmax / 2 if mutate == 1 else cmax)):
        try:
            m.parameters['pf'].datatype.validate(x)
            ok = True
        except RangeError:
            ok = False
        prec = M.absv(x) * 1.2e-7
        env.check(M.eq(ok, True) if False else (M.And(x <= limit + prec) if ok else M.Not(x <= limit + prec)), K + '/limit-of-other-instance-applied',
                  m.name)
    # (6) subclasses got what they asked for (the override itself works)
    if h in ('param-override', 'inherit-false', 'two-level'):
        sub = d['sub0']['accessibles']['_pf' if '_pf' in d['sub0']['accessibles'] else 'pf']['datainfo']
        env.check(M.eq(sub.get('max'), hi), K + '/override-not-applied')
    # (7) siblings and intermediate classes keep what their own class chain says
    def acc(name, wname):
        return d[name]['accessibles'][wname]
    if h == 'mixin':
        env.check(acc('sub21', '_mx')['datainfo'].get('max') == 10, K + '/sibling-subclass-got-the-override', acc('sub21', '_mx')['datainfo'])
        env.check(M.eq(acc('sub0', '_mx')['datainfo'].get('max'), n_enum), K + '/override-not-applied')
    if h == 'mixin-merge':
        a = acc('mixa0', '_pz')['datainfo']
        b = acc('mixb1', '_pz')['datainfo']
        env.check(a.get('min') == 0 and a.get('max') == 5, K + '/class-using-a-mixin-changed-by-a-later-class', a)
        env.check(M.eq(b.get('min'), n_enum - 8) and b.get('max') == 5, K + '/override-not-applied', b)
        _, again = describe(w, ['MixA'])
        env.check(again['MixA']['accessibles']['_pz']['datainfo'].get('min') == 0, K + '/later-instance-changed-by-a-later-class')
    if h == 'property-two-level':
        env.check(d['sub0'].get('group') == 'lab' and d['sub0'].get('visibility') == 2, K + '/intermediate-class-rewritten-by-subclass',
                  [d['sub0'].get('group'), d['sub0'].get('visibility')])
        env.check(d['subsub1'].get('group') == 'teaching' and d['subsub1'].get('visibility') == 3, K + '/override-not-applied')
        env.check('group' not in d[plain.name] and d[plain.name].get('visibility', 1) in (1, 'user'), K + '/base-class-rewritten-by-subclass')
        _, again = describe(w, ['Sub'])
        env.check(again['Sub'].get('group') == 'lab', K + '/later-instance-of-intermediate-class-rewritten', again['Sub'].get('group'))
    if h == 'feature-mixin':
        env.check(d['sub0'].get('features') == ['HasOffset'] and d['subsub1'].get('features') == ['HasOffset'], K + '/features-of-subclass-lost',
                  [d['sub0'].get('features'), d['subsub1'].get('features')])
        env.check(not d[plain.name].get('features'), K + '/base-got-the-features-of-a-subclass', d[plain.name].get('features'))
        _, again = describe(w, ['Base', 'Sub'])
        env.check(again['Sub'].get('features') == ['HasOffset'] and not again['Base'].get('features'), K + '/features-depend-on-creation-order',
                  [again['Sub'].get('features'), again['Base'].get('features')])
    if h == 'shared-datatype-object':
        env.check(acc('u10', '_pu')['datainfo'].get('max') == 255, K + '/class-changed-through-a-shared-datatype-object', acc('u10', '_pu')['datainfo'])
        env.check(acc('u32', '_pu')['datainfo'].get('max') == 255, K + '/class-changed-through-a-shared-datatype-object', acc('u32', '_pu')['datainfo'])
        env.check(M.eq(acc('u21', '_pu')['datainfo'].get('max'), n_enum), K + '/override-not-applied')
        env.check(UInt.max == 255, K + '/datatype-object-of-the-programmer-changed', UInt.max)
    if h == 'two-plain-mixins':
        env.check(M.eq(acc('sub0', '_pz')['datainfo'].get('max'), n_enum), K + '/override-not-applied')
        env.check(acc('sub21', '_pz')['datainfo'].get('max') == 10, K + '/class-using-a-mixin-changed-by-a-later-class', acc('sub21', '_pz')['datainfo'])
    if h == 'mixin-after':
        env.check(acc('sub0', '_pf').get('group') == 'aftergroup' or True, K + '/x')
    if h == 'branch-removes':
        env.check('_pf' not in d['removed1']['accessibles'], K + '/removed-parameter-still-there')
        env.check(M.eq(acc('side0', '_pf')['datainfo'].get('max'), hi), K + '/override-not-applied')
        env.check(acc('sub2', '_pf')['datainfo'].get('max') == 100, K + '/sibling-defined-later-got-the-override', acc('sub2', '_pf')['datainfo'].get('max'))
    if h == 'diamond':
        le = acc('left0', '_pf')
        env.check(le['datainfo'].get('max') == 100 and le.get('readonly') is True, K + '/class-rewritten-by-a-class-inheriting-from-it', le)
        ri = acc('right1', '_pf')
        env.check(M.eq(ri['datainfo'].get('max'), hi) and ri.get('readonly') is False, K + '/class-rewritten-by-a-class-inheriting-from-it', ri)
        _, again = describe(w, ['Left'])
        env.check(again['Left']['accessibles']['_pf']['datainfo'].get('max') == 100, K + '/later-instance-of-a-base-rewritten-by-diamond', None)
    # the configured instance shows its own main unit in container members, every other instance its own
    cw = acc(configured.name, '_pw')['datainfo']['members'][0].get('unit')
    env.check(cw == 'mbar', K + '/main-unit-not-applied-to-container-members', cw)
    if h == 'bare-below-param':
        env.check(M.eq(acc('sub0', '_pf')['datainfo'].get('max'), hi), K + '/intermediate-class-changed')
        env.check(acc('sib2', '_pf')['datainfo'].get('max') == 100, K + '/sibling-defined-later-got-the-override', acc('sib2', '_pf')['datainfo'].get('max'))
    if h == 'method-struct-command':
        env.check(acc(plain.name, '_cmds')['datainfo']['argument'].get('optional') == ['n'], K + '/base-command-argument-rewritten',
                  acc(plain.name, '_cmds')['datainfo']['argument'].get('optional'))
        env.check(acc('sub0', '_cmds')['datainfo']['argument'].get('optional') == [], K + '/override-not-applied',
                  acc('sub0', '_cmds')['datainfo']['argument'].get('optional'))
    # (8) run-time mutation of a command argument datatype of ONE instance
    configured.commands['cmds'].argument.members['x'].setProperty('max', 5.0)
    d2 = srv.secnode.get_descriptive_data('')['modules']
    env.check(d2[plain.name]['accessibles']['_cmds']['datainfo']['argument']['members']['x'].get('max') == 10,
              K + '/command-datatype-shared-between-instances')
    _, late2 = describe(w, ['Base'])
    env.check(late2['Base']['accessibles']['_cmds']['datainfo']['argument']['members']['x'].get('max') == 10,
              K + '/command-datatype-shared-with-class')
    env.note('compared')


def diffkeys(a, b):
    try:
        if isinstance(a, dict) and isinstance(b, dict):
            return sorted(k for k in set(a) | set(b) if repr(a.get(k)) != repr(b.get(k)))[:6]
    except Exception:
        pass
    return None
