"""C09 -- module classes, instances and configurations are isolated from each other

A catalogue of class hierarchies is built twice from the same factory: once
alone (reference) and once together with subclasses that override accessibles
with symbolic values, with configured instances and with run-time mutations of
one instance.  The description and the limits of everything else must equal
the reference."""
import dtmodel as M
import common as C

PROPERTY = 'C09'
FUNCTIONS = ['frappy.modulebase.HasAccessibles.__init_subclass__', 'frappy.modulebase.Module.{__init__,_add_accessible}',
             'frappy.params.{Parameter,Command}.{clone,copy,merge,create_from_value,updateProperties,finish}',
             'frappy.properties.HasProperties.{__init_subclass__,__init__,setProperty}', 'frappy.datatypes.*.copy',
             'frappy.mixins.HasControlledBy.register_input']
ASSUMPTIONS = ['the property quantifies over programs; the solver quantifies over the values (limits, defaults, configured overrides, run-time '
               'mutations) inside a fixed catalogue of hierarchies: override by Parameter(), by bare value, by None, command overridden by a plain '
               'method, mixin / multiple inheritance, inherit=False, struct parameter, controlled_by enum growth; class graph shapes beyond the '
               'catalogue are not covered']
REQUIRED_TAGS = ['compared']
LIMITS = {'quick': {'max_paths': 20000, 'max_s': 150}, 'thorough': {'max_paths': 200000, 'max_s': 900}}

HIER = ['param-override', 'bare-value', 'none-override', 'method-command', 'mixin', 'inherit-false', 'struct', 'enum-growth', 'two-level']


def cases(tier):
    out = []
    for h in HIER:
        for order in ('sub-first', 'base-first'):
            out.append({'fn': 'run_isolation', 'id': f'{h}/{order}', 'params': {'h': h, 'order': order}})
    return out


def base_classes():
    """the part of the program every hierarchy shares; called once per world"""
    from frappy.core import Module, Writable, Parameter, Command, FloatRange, IntRange, EnumType, StringType
    from frappy.extparams import StructParam
    from frappy.mixins import HasControlledBy

    class Mixin:
        mx = Parameter('mixin parameter', IntRange(0, 10), readonly=False, default=1)

    class Base(Writable):
        pf = Parameter('float', FloatRange(0, 100, unit='K'), readonly=False, default=1)
        pe = Parameter('enum', EnumType('e', a=1, b=2), readonly=False, default=1)
        ps = Parameter('string', StringType(), default='base')
        ctrl = StructParam('struct', dict(p=Parameter('p', FloatRange(0, 10)), i=Parameter('i', FloatRange(0, 10))), 'c_', readonly=False)

        @Command(FloatRange(0, 10), result=FloatRange())
        def cmd(self, v):
            """command"""
            return v

        def read_ctrl(self):
            return {'p': 1, 'i': 2}

        def write_ctrl(self, value):
            return value

    class Out(HasControlledBy, Writable):
        pass
    return {'Base': Base, 'Mixin': Mixin, 'Out': Out}


def describe(classes, names, cfgs=None):
    """node with one instance per class name; returns {name: module description}"""
    cfg = {}
    for i, n in enumerate(names):
        c = {'cls': classes[n], 'description': n}
        c.update((cfgs or {}).get(n, {}))
        cfg[f'{n.lower()}{i}'] = c
    srv = C.make_node(cfg)
    d = srv.secnode.get_descriptive_data('')
    return srv, {n: d['modules'][f'{n.lower()}{i}'] for i, n in enumerate(names)}


def strip(desc):
    """description without the fields naming the instance"""
    d = dict(desc)
    d.pop('description', None)
    return d


def run_isolation(env, p):
    from frappy.core import Parameter, Command, FloatRange, IntRange, EnumType, Writable
    from frappy.mixins import HasOutputModule
    h = p['h']
    K = 'C09/' + h
    # ---------------- reference world: only the base classes
    ref = base_classes()
    _, refdesc = describe(ref, ['Base', 'Out'])
    ref_class_info = {n: a.datatype.export_datatype() for n, a in ref['Base'].accessibles.items() if hasattr(a, 'datatype')}
    # ---------------- world under test
    w = base_classes()
    Base, Mixin, Out = w['Base'], w['Mixin'], w['Out']
    hi = env.real('sub.max', 0, 100)
    dflt = env.real('sub.default', 0, 100)
    env.assume(dflt <= hi)
    n_enum = env.int('sub.enum', 3, 9)
    if p['order'] == 'base-first':
        _, early = describe(w, ['Base'])
        env.check(M.eq(strip(early['Base']), strip(refdesc['Base'])), K + '/base-differs-before-subclassing')
    subs = {}
    if h == 'param-override':
        class Sub(Base):
            pf = Parameter(max=hi, default=dflt)
            pe = Parameter(datatype=EnumType('e', a=1, b=2, z=n_enum))
        subs['Sub'] = Sub
    elif h == 'bare-value':
        class Sub(Base):
            pf = dflt
            ps = 'sub'
        subs['Sub'] = Sub
    elif h == 'none-override':
        class Sub(Base):
            pe = None
            cmd = None
        subs['Sub'] = Sub
    elif h == 'method-command':
        class Sub(Base):
            def cmd(self, v):
                """overridden"""
                return v + 1
        subs['Sub'] = Sub
    elif h == 'mixin':
        class Sub(Mixin, Base):
            mx = Parameter(max=n_enum)

        class Sub2(Mixin, Base):
            pass
        subs['Sub'] = Sub
        subs['Sub2'] = Sub2
    elif h == 'inherit-false':
        class Sub(Base):
            pf = Parameter('new float', FloatRange(0, hi), inherit=False, default=dflt)
        subs['Sub'] = Sub
    elif h == 'struct':
        class Sub(Base):
            c_p = Parameter(max=hi)
        subs['Sub'] = Sub
    elif h == 'two-level':
        class Sub(Base):
            pf = Parameter(max=hi)

        class SubSub(Sub):
            pf = Parameter(min=dflt / 2)
        subs['Sub'] = Sub
        subs['SubSub'] = SubSub
    elif h == 'enum-growth':
        class Ctl(HasOutputModule, Writable):
            pass
        subs['Ctl'] = Ctl
    w.update(subs)
    # instances: the subclass(es), a sibling base instance configured with overrides, a plain base instance
    cmax = env.real('cfg.max', 0, 100)
    cval = env.real('cfg.value', 0, 100)
    env.assume(cval <= cmax)
    names = list(subs) + ['Base', 'Base', 'Out', 'Out']
    cfg = {}
    node_cfg = {}
    for i, n in enumerate(names):
        c = {'cls': w[n], 'description': n}
        if n == 'Ctl':
            c['output_module'] = 'out%d' % names.index('Out')
        node_cfg[f'{n.lower()}{i}'] = c
    iconfigured = names.index('Base')
    node_cfg[f'base{iconfigured}']['pf'] = {'value': cval, 'max': cmax}
    node_cfg[f'base{iconfigured}']['visibility'] = 'expert'
    try:
        srv = C.make_node(node_cfg)
    except Exception as e:
        env.fail(K + '/node-creation-raised/' + type(e).__name__, repr(e)[:200])
        return
    if srv.secnode.errors:
        env.fail(K + '/node-creation-errors', srv.secnode.errors[:3])
        return
    mods = srv.secnode.modules
    plain = mods[f'base{iconfigured + 1}']
    configured = mods[f'base{iconfigured}']
    # run-time mutation of ONE instance
    mutate = env.choice('mutate', 3)
    if mutate == 1:
        configured.parameters['pf'].datatype.setProperty('max', cmax / 2)
        configured.parameters['pe'].datatype = EnumType('e', a=1, b=2, rt=n_enum)
    elif mutate == 2:
        configured.parameters['ps'].setProperty('description', 'changed at run time')
        configured.setProperty('group', 'grp')
    d = srv.secnode.get_descriptive_data('')['modules']
    # (1) the plain base instance equals the reference although subclasses, a configured sibling and mutations exist
    env.check(M.eq(strip(d[plain.name]), strip(refdesc['Base'])), K + '/other-instance-changed', diffkeys(strip(d[plain.name]), strip(refdesc['Base'])))
    # (2) the class level accessibles of Base are untouched
    now = {n: a.datatype.export_datatype() for n, a in Base.accessibles.items() if hasattr(a, 'datatype')}
    env.check(M.eq(now, ref_class_info), K + '/base-class-changed', diffkeys(now, ref_class_info))
    # (3) an instance created later equals the reference as well
    _, late = describe(w, ['Base', 'Out'])
    env.check(M.eq(strip(late['Base']), strip(refdesc['Base'])), K + '/later-instance-changed', diffkeys(strip(late['Base']), strip(refdesc['Base'])))
    # (4) the second output module (no controller attached) still only knows 'self'
    iout = [i for i, n in enumerate(names) if n == 'Out']
    other_out = d[f'out{iout[1]}']
    env.check(M.eq(strip(other_out), strip(refdesc['Out'])), K + '/sibling-output-changed')
    env.check(M.eq(strip(late['Out']), strip(refdesc['Out'])), K + '/later-output-changed')
    if h == 'enum-growth':
        grown = d[f'out{iout[0]}']['accessibles']['controlled_by']['datainfo']['members']
        env.check(set(grown) == {'self', 'ctl0'}, K + '/controlled_by-not-grown', sorted(grown))
    # (5) limits really differ per instance: behaviour, not only description
    from frappy.errors import RangeError
    x = env.real('probe', 0, 100)
    for m, limit in ((plain, 100), (configured, cmax / 2 if mutate == 1 else cmax)):
        try:
            m.parameters['pf'].datatype.validate(x)
            ok = True
        except RangeError:
            ok = False
        prec = M.absv(x) * 1.2e-7
        env.check(M.eq(ok, True) if False else (M.And(x <= limit + prec) if ok else M.Not(x <= limit + prec)), K + '/limit-of-other-instance-applied',
                  m.name)
    # (6) subclasses got what they asked for (the override itself works)
    if h in ('param-override', 'inherit-false', 'two-level'):
        sub = d['sub0']['accessibles']['_pf' if '_pf' in d['sub0']['accessibles'] else 'pf']['datainfo']
        env.check(M.eq(sub.get('max'), hi), K + '/override-not-applied')
    env.note('compared')


def diffkeys(a, b):
    try:
        if isinstance(a, dict) and isinstance(b, dict):
            return sorted(k for k in set(a) | set(b) if repr(a.get(k)) != repr(b.get(k)))[:6]
    except Exception:
        pass
    return None
