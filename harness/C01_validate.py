"""C01 -- datatype validation is sound, canonical and total (symx part)

For every shape (symbolic limits) x candidate (kind tags, symbolic payloads)
x previous value: import_value + validate either raises a bad-value error or
returns a value judged by the independent oracle in dtmodel.judge_accept.
"""
import dtmodel as M

PROPERTY = 'C01'
FUNCTIONS = ['frappy.datatypes.{FloatRange,IntRange,ScaledInteger,BoolType,EnumType,StringType,BLOBType,ArrayOf,'
             'TupleOf,StructOf}.{__call__,validate,import_value,check_type}', 'frappy.lib.clamp',
             'frappy.properties.HasProperties.{setProperty,checkProperties}', 'frappy.lib.enum.Enum.__getitem__']
ASSUMPTIONS = ['numeric limits are arbitrary (symbolic) with min <= max inside +-1e300 (ints inside +-2**64)',
               'float candidates offered to int/bool leaves lie in +-4096 (symbolic), to enum leaves in +-8 (ints too); other int candidates +-2**70; around scaled integers: grid indices +-8, candidates +-32',
               'scaled integers: scale from the catalogue {0.001, 0.1, 0.5, 1, 3, 1e6}, limits grid aligned',
               'container lengths 0..3 compared against symbolic minlen/maxlen in 0..5; nesting depth <= 3',
               'strings, blobs and enum names are concrete catalogue literals in this harness (symbolic strings: CrossHair part)',
               'lazy_number_validation at its default (False)']
REQUIRED_TAGS = ['accepted', 'rejected']
ACCEPTED_FLAGS = {'hash-of-nonintegral-real': 'only Enum tables are hashed into here; their keys are ints and strs, so a '
                                              'non-integral float equals none of them whatever hash is used'}
LIMITS = {'quick': {'max_paths': 4000, 'max_s': 120}, 'thorough': {'max_paths': 60000, 'max_s': 900}}

ENUM = {'k': 'enum', 'members': {'a': 1, 'b': 2, 'c': 5}}
D = {'k': 'double'}
DU = {'k': 'double', 'limits': 'none'}
DA = {'k': 'double', 'abs': 'sym'}
DDEG = {'k': 'double', 'degenerate': True}
DREL0 = {'k': 'double', 'rel': 0.0}
I = {'k': 'int'}
IDEG = {'k': 'int', 'degenerate': True}
B = {'k': 'bool'}
S = {'k': 'string'}
SU = {'k': 'string', 'utf8': True}
BL = {'k': 'blob'}


def SC(s, **kw):
    return dict({'k': 'scaled', 'scale': s}, **kw)


LEAVES = {'double': D, 'double-unlimited': DU, 'double-absres': DA, 'double-deg': DDEG, 'double-rel0': DREL0,
          'int': I, 'int-deg': IDEG, 'bool': B, 'enum': ENUM,
          'scaled0.1': SC(0.1), 'scaled0.5': SC(0.5), 'scaled3': SC(3), 'scaled1e6': SC(1e6), 'scaled0.001': SC(0.001),
          'scaled1-deg': SC(1, degenerate=True)}
NUM_TAGS = ['int', 'float', 'bool', 'str12', 'strab', 'none', 'list0', 'dict0', 'nan', 'inf', '-inf', 'hugeint',
            'list1', 'dict1']
STR_LITS = ["lit:''", "lit:'a'", "lit:'ab'", "lit:'abc'", "lit:'abcd'", "lit:'\\xe9'", "lit:'a\\x00'", "lit:'\\u20ac\\U0001f600'",
            'int', 'none', 'list1', 'dict1', 'bytes', 'float', 'bool']
B64_LITS = ["lit:''", "lit:'YQ=='", "lit:'YWI='", "lit:'YWJj'", "lit:'YWJjZA=='", "lit:'YWI'", "lit:'YW I='",
            "lit:'!!!!'", "lit:'YWI=\\n'", "lit:'=YWI'", "lit:'Y=WI'", "lit:'YQ'", "lit:'\\xe9\\xe9\\xe9\\xe9'", "lit:'YWI=YWI='",
            'int', 'none', 'list1', 'dict1', 'float', 'bool']
CONT_WRONG = ['strab', 'str', 'empty', 'dict1', 'dict0', 'none', 'int', 'float', 'bool', 'nan', 'bytes']


def has_kind(shape, kinds):
    if shape['k'] in kinds:
        return True
    subs = shape.get('of', [])
    if isinstance(subs, dict):
        subs = list(subs.values()) if 'k' not in subs else [subs]
    return any(has_kind(s, kinds) for s in subs)


def case(fn, cid, **params):
    # mixed int/real queries (floor of a real) diverge in z3's branch and bound on wide boxes:
    # floats offered where an integer conversion happens are boxed, ints around scaled grids as well
    if has_kind(params['shape'], ('scaled',)):
        params['box'] = {'i': 4 * M.KBOX, 'f': 4 * M.KBOX}
    elif has_kind(params['shape'], ('enum',)):
        params['box'] = {'f': 8, 'i': 8}
    elif has_kind(params['shape'], ('int', 'bool')):
        params['box'] = {'f': 4096}
    return {'fn': fn, 'id': cid, 'params': params}


def cases(tier):
    out = []
    thorough = tier == 'thorough'
    # integers beyond 2**53 with concrete wide limits (the symbolic value is checked for exactness on the witness replay)
    for wname, lim in (('int64', [-(1 << 63), (1 << 63) - 1]), ('uint64', [0, (1 << 64) - 1]), ('pm2p64', [-(1 << 64), 1 << 64])):
        wide = {'k': 'int', 'fixed': lim}
        for path in ('wire', 'driver'):
            out.append(case('run_validate', f'int-wide-{wname}/bigint/{path}', shape=wide, cand='bigint', path=path))
            out.append(case('run_validate', f'array-int-wide-{wname}/bigint/{path}', shape={'k': 'array', 'of': wide}, cand=['list', ['bigint']], path=path))
            out.append(case('run_validate', f'struct-int-wide-{wname}/bigint/{path}', shape={'k': 'struct', 'of': {'a': wide}}, cand=['dict', {'a': 'bigint'}], path=path))
    for name, shape in LEAVES.items():
        for t in NUM_TAGS:
            for path in ('wire', 'driver'):
                out.append(case('run_validate', f'{name}/{t}/{path}', shape=shape, cand=t, path=path))
    # scaled integers with limits far from zero (10**9 and 2**24 steps): candidates in a window around each limit
    for sname, sc, (klo, khi) in (('0.001', 0.001, (0, 10 ** 9)), ('0.01-default', 0.01, (-(1 << 24), 1 << 24)), ('0.5', 0.5, (-(10 ** 8), 10 ** 8))):
        shape = {'k': 'scaled', 'scale': sc, 'fixed': [klo, khi]}
        for end, kk in (('hi', khi), ('lo', klo)):
            c = case('run_validate', f'scaled-far-{sname}/{end}/int/wire', shape=shape, cand='int', path='wire')
            c['params']['box'] = {'near': [kk, 120]}
            out.append(c)
            for path in ('driver',):
                c = case('run_validate', f'scaled-far-{sname}/{end}/float/{path}', shape=shape, cand='float', path=path)
                c['params']['box'] = {'near': [kk * sc, 120 * sc]}
                out.append(c)
    for path in ('wire', 'driver'):
        out.append(case('run_validate', f'int/bigint/{path}', shape=I, cand='bigint', path=path))
        out.append(case('run_validate', f'array-int/bigint/{path}', shape={'k': 'array', 'of': I}, cand=['list', ['bigint']], path=path))
    for name, shape in (('string', S), ('string-utf8', SU)):
        for t in STR_LITS:
            for path in ('wire', 'driver'):
                out.append(case('run_validate', f'{name}/{t}/{path}', shape=shape, cand=t, path=path))
    for t in B64_LITS:
        out.append(case('run_validate', f'blob/{t}/wire', shape=BL, cand=t, path='wire'))
    for t in ["lit:b''", "lit:b'ab'", "lit:b'\\x00\\xff\\n'", "lit:b'abcdef'", "lit:'YWI='", 'int', 'none', 'list1']:
        out.append(case('run_validate', f'blob/{t}/driver', shape=BL, cand=t, path='driver'))
    # enum by name
    for t in ["lit:'a'", "lit:'c'", "lit:'d'", "lit:''", "lit:'1'", 'smallint', "lit:1.0", "lit:1.5", "lit:True", 'list1', 'bytes']:
        for path in ('wire', 'driver'):
            out.append(case('run_validate', f'enum/{t}/{path}', shape=ENUM, cand=t, path=path))
    # containers
    members = {'double': D, 'int': I, 'scaled0.1': SC(0.1), 'bool': B, 'enum': ENUM, 'string': S}
    if not thorough:
        members = {'double': D, 'int': I, 'enum': ENUM, 'string': S}
    elem_kind = {'double': 'float', 'int': 'int', 'scaled0.1': 'int', 'bool': 'bool', 'enum': 'smallint', 'string': "lit:'ab'"}
    bad_elem = {'double': ['strab', 'none', 'nan'], 'int': ['float', 'str12'], 'scaled0.1': ['float', 'str12'],
                'bool': ['int', 'strab'], 'enum': ['float', "lit:'zz'"], 'string': ['int', 'none']}
    for mname, mshape in members.items():
        arr = {'k': 'array', 'of': mshape}
        good = elem_kind[mname]
        for n in range(4):
            for prev in ([None, 0, 1, 3] if thorough else [None, 1, 3]):
                out.append(case('run_validate', f'array-{mname}/len{n}/prev{prev}', shape=arr,
                                cand=['list', [good] * n], prevlen=prev, path='wire'))
            out.append(case('run_validate', f'array-{mname}/len{n}/driver', shape=arr, cand=['list', [good] * n], path='driver'))
        for bad in bad_elem[mname]:
            for pos in range(2):
                c = [good, good]
                c[pos] = bad
                out.append(case('run_validate', f'array-{mname}/bad-{bad}@{pos}', shape=arr, cand=['list', c], path='wire'))
        for t in CONT_WRONG:
            for path in ('wire', 'driver'):
                out.append(case('run_validate', f'array-{mname}/{t}/{path}', shape=arr, cand=t, path=path))
    tup = {'k': 'tuple', 'of': [D, I, S]}
    tgood = ['float', 'int', "lit:'ab'"]
    for path in ('wire', 'driver'):
        out.append(case('run_validate', f'tuple/good/{path}', shape=tup, cand=['list', tgood], path=path))
    out.append(case('run_validate', 'tuple/good/prev', shape=tup, cand=['list', tgood], prevlen=3, path='wire'))
    # a previous value shorter than the tuple (e.g. stored before the datatype grew) must not cut the result short
    for n in (0, 1, 2):
        out.append(case('run_validate', f'tuple/good/prev-short{n}', shape=tup, cand=['list', tgood], prevlen=n, prevshort=True, path='wire'))
        out.append(case('run_validate', f'tuple/good/prev-short{n}/validate', shape=tup, cand=['list', tgood], prevlen=n, prevshort=True, path='validate'))
    for n in (0, 2, 4):
        out.append(case('run_validate', f'tuple/arity{n}', shape=tup, cand=['list', (tgood + ['int'])[:n]], path='wire'))
    for pos, bad in ((0, 'strab'), (1, 'float'), (2, 'int'), (0, 'none'), (1, 'bool')):
        c = list(tgood)
        c[pos] = bad
        out.append(case('run_validate', f'tuple/bad-{bad}@{pos}', shape=tup, cand=['list', c], path='wire'))
    for t in CONT_WRONG + ["lit:'abc'"]:
        for path in ('wire', 'driver'):
            out.append(case('run_validate', f'tuple/{t}/{path}', shape=tup, cand=t, path=path))
    tup2 = {'k': 'tuple', 'of': [S, S]}
    for t in ["lit:'ab'", "lit:['a', 'b']", "lit:{'a': 1, 'b': 2}", "lit:b'ab'"]:
        for path in ('wire', 'driver'):
            out.append(case('run_validate', f'tuple-str-str/{t}/{path}', shape=tup2, cand=t, path=path))
    st = {'k': 'struct', 'of': {'x': D, 'n': I, 's': S}, 'optional': ['n', 's']}
    stall = {'k': 'struct', 'of': {'x': D, 'n': I}}
    for sname, sshape in (('struct-opt', st), ('struct-allopt', stall)):
        names = list(sshape['of'])
        kinds = {'x': 'float', 'n': 'int', 's': "lit:'ab'"}
        full = {n: kinds[n] for n in names}
        variants = {'full': full, 'only-x': {'x': 'float'}, 'none-n': dict(full, n='none'), 'empty': {},
                    'unknown': dict(full, zz='int'), 'bad-x': dict(full, x='strab'), 'bad-n': dict(full, n='float'),
                    'missing-x': {n: k for n, k in full.items() if n != 'x'},
                    'none-x': dict(full, x='none')}
        for vn, v in variants.items():
            for prev in (False, True):
                out.append(case('run_validate', f'{sname}/{vn}/prev{int(prev)}', shape=sshape, cand=['dict', v],
                                prevfull=prev, path='wire'))
            out.append(case('run_validate', f'{sname}/{vn}/driver', shape=sshape, cand=['dict', v], path='driver'))
        for vn in ('none-x', 'full'):
            out.append(case('run_validate', f'{sname}/{vn}/validate-direct', shape=sshape, cand=['dict', variants[vn]], path='validate'))
        for t in ['strab', 'list0', 'list1', 'none', 'int', "lit:[('x', 1.0)]", "lit:[['x', 1.0], ['n', 1]]", "lit:{1: 2}", "lit:{'x': 1.0, 2: 3}",
                  ]:
            for path in ('wire', 'driver') + (('validate',) if t.startswith('lit:{') else ()):
                out.append(case('run_validate', f'{sname}/{t}/{path}', shape=sshape, cand=t, path=path))
    # validate(value, previous) called directly (as the dispatcher does after import_value, and as drivers may): a struct with an enum
    # member and a previous value holding the same member; candidates equal to, near and different from the previous members
    sten = {'k': 'struct', 'of': {'e': ENUM, 'x': D, 'n': I}}
    stnest = {'k': 'struct', 'of': {'in': {'k': 'struct', 'of': {'e': ENUM}}, 'x': D}}
    for sname, sshape, mk in (('struct-enum', sten, lambda e: {'e': e, 'x': 'float', 'n': 'int'}),
                              ('struct-nested-enum', stnest, lambda e: {'in': ['dict', {'e': e}], 'x': 'float'})):
        for e in ('smallint', 'lit:1.5', 'lit:2.5', 'lit:1.0', "lit:'a'", 'float', 'lit:True'):
            for path in ('wire', 'validate'):
                c = case('run_validate', f'{sname}/e-{e}/prev/{path}', shape=sshape, cand=['dict', mk(e)], prevfull=True, path=path)
                out.append(c)
    # depth 3
    deep = {'k': 'array', 'of': {'k': 'struct', 'of': {'p': {'k': 'tuple', 'of': [D, ENUM]}, 'q': I}, 'optional': ['q']}}
    dgood = ['dict', {'p': ['list', ['float', 'smallint']], 'q': 'int'}]
    out.append(case('run_validate', 'deep/good1', shape=deep, cand=['list', [dgood]], path='wire'))
    out.append(case('run_validate', 'deep/good1/prev', shape=deep, cand=['list', [['dict', {'p': ['list', ['float', 'smallint']]}]]],
                    prevlen=1, path='wire'))
    out.append(case('run_validate', 'deep/bad-inner', shape=deep,
                    cand=['list', [['dict', {'p': ['list', ['strab', 'smallint']], 'q': 'int'}]]], path='wire'))
    out.append(case('run_validate', 'deep/str-inner', shape=deep,
                    cand=['list', [['dict', {'p': "lit:'ab'", 'q': 'int'}]]], path='wire'))
    if thorough:
        deep2 = {'k': 'tuple', 'of': [{'k': 'array', 'of': {'k': 'array', 'of': SC(0.5)}}, B]}
        out.append(case('run_validate', 'deep2/good', shape=deep2,
                        cand=['list', [['list', [['list', ['int', 'int']], ['list', []]]], 'bool']], path='wire'))
        out.append(case('run_validate', 'deep2/frac', shape=deep2,
                        cand=['list', [['list', [['list', ['float']]]], 'bool']], path='wire'))
    return out


def run_validate(env, p):
    from frappy.errors import BadValueError
    spec = M.build(env, p['shape'], 'd')
    cand = M.make(env, p['cand'], 'v', box=p.get('box'))
    wire = p['path'] == 'wire'
    prev = None
    if p.get('prevlen') is not None and spec.kind == 'array':
        prev = tuple(M.valid_value(env, spec.sub, f'p[{i}]') for i in range(p['prevlen']))
    elif p.get('prevlen') is not None and spec.kind == 'tuple':
        prev = M.valid_value(env, spec, 'p')
        if p.get('prevshort'):
            prev = prev[:p['prevlen']]
    elif p.get('prevfull'):
        prev = M.valid_value(env, spec, 'p')
    key = 'C01/' + p['path']
    try:
        if wire:
            v = spec.dt.import_value(cand.value)
            r = spec.dt.validate(v, prev)
        elif p['path'] == 'validate':
            r = spec.dt.validate(cand.value, prev)
        else:
            r = spec.dt(cand.value)
    except BadValueError:
        env.note('rejected')
        return
    except Exception as e:
        env.note('other-exception')
        env.fail(f'{key}/{spec.kind}/other-exception/{type(e).__name__}/{M_desc(cand)}', repr(e))
        return
    env.note('accepted')
    M.judge_accept(env, spec, cand, r, key, wire=wire, limits=wire or p['path'] == 'validate', prev=prev)
    # validating a validated value returns it unchanged
    try:
        r2 = spec.dt.validate(r) if wire or p['path'] == 'validate' else spec.dt(r)
    except Exception as e:
        env.fail(f'{key}/{spec.kind}/revalidation-raises/{type(e).__name__}', repr(e))
        return
    env.check(M.eq(r2, r), f'{key}/{spec.kind}/not-idempotent')


def M_desc(cand):
    return cand.desc if isinstance(cand.desc, str) else 'container'
