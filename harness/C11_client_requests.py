"""C11 -- client: every caller gets its own reply or an error (loop iterations as atomic steps)

A real SecopClient without sockets; the bodies of its transmit and receive loops
are executed one iteration at a time in an order chosen by symbolic selectors."""
import common as C

PROPERTY = 'C11'
FUNCTIONS = ['frappy.client.SecopClient.{__txthread,__rxthread,queue_request,get_reply,request,disconnect,_unhandled_message}',
             'frappy.protocol.messages.REQUEST2REPLY', 'frappy.protocol.interface.{encode_msg_frame,decode_msg}', 'frappy.errors.make_secop_error']
ASSUMPTIONS = ['granularity: one iteration of the transmit loop / receive loop is one atomic step; the order of steps, the reply that arrives '
               '(matching reply, error reply, unrelated update, unknown message, reply nobody asked for) and the request mix (equal and distinct keys, '
               'unknown action) are chosen by symbolic selectors; <= 3 requests, 4 (quick) / 5 (thorough) steps',
               'pre-emption inside a loop iteration and the real thread shutdown are explored by harness/C11_races.py (real threads, symbolic schedules)',
               'Event.wait is virtual: a wait on an unset event is an expired time-out']
REQUIRED_TAGS = ['completed', 'parked', 'released-by-disconnect', 'timeout']
LIMITS = {'quick': {'max_paths': 40000, 'max_s': 150}, 'thorough': {'max_paths': 400000, 'max_s': 900}}

REQS = [('read', 'm:a', None), ('read', 'm:a', None), ('change', 'm:a', 1.5), ('xyz', None, None), ('ping', '1', None), ('read', 'm:b', None)]
MIXES = [[0, 1, 2], [0, 1, 1], [0, 3, 3], [0, 5, 4], [3, 0, 1], [2, 2, 0]]


class StepDone(BaseException):
    pass


class StepQueue:
    """stands for queue.Queue(30) of the transmit side; get() hands out one entry per step"""
    def __init__(self):
        self.items = []
        self.allow = 0

    def put(self, item, block=True, timeout=None):
        self.items.append(item)

    def get(self, block=True, timeout=None):
        if not self.items:
            if not block:
                import queue
                raise queue.Empty()
            raise StepDone()
        if block and self.allow <= 0:
            raise StepDone()
        self.allow -= 1
        return self.items.pop(0)

    def empty(self):
        return not self.items


class FakeIO:
    def __init__(self):
        self.sent = []
        self.lines = []
        self.allow = 0
        self.closed = False
        self.broken = False

    def send(self, line):
        if self.broken:
            raise BrokenPipeError('connection lost')
        self.sent.append(line)

    def readline(self, timeout=None):
        if self.allow <= 0:
            raise StepDone()
        self.allow -= 1
        return self.lines.pop(0)

    def shutdown(self):
        pass

    def disconnect(self):
        self.closed = True


class VEvent:
    """threading.Event in virtual time: waiting on an unset event = the time-out expires"""
    def __init__(self):
        self.flag = False
        self.nset = 0

    def set(self):
        self.flag = True
        self.nset += 1

    def clear(self):
        self.flag = False

    def is_set(self):
        return self.flag

    def wait(self, timeout=None):
        return self.flag


def cases(tier):
    out = []
    steps = 5 if tier == 'thorough' else 4
    for i, mix in enumerate(MIXES):
        for first in range(4):
            for second in range(4):
                out.append({'fn': 'run_steps', 'id': f'mix{i}/first{first}{second}', 'params': {'mix': mix, 'steps': steps, 'first': [first, second]}})
    return out


def make_client():
    import frappy.client as fc
    from frappy.client import SecopClient
    fc.Event = VEvent
    cl = SecopClient('fake://x', log=None)
    cl.io = FakeIO()
    cl.txq = StepQueue()
    cl._running = True
    cl.activate = False
    from frappy.datatypes import FloatRange
    cl.modules = {'m': {'parameters': {'a': {'datatype': FloatRange()}, 'b': {'datatype': FloatRange()}}}}
    cl.internal = {'m:a': ('m', 'a'), 'm:b': ('m', 'b')}
    cl.identifier = {('m', 'a'): 'm:a', ('m', 'b'): 'm:b'}
    return cl


def run_steps(env, p):
    from frappy.protocol.interface import encode_msg_frame
    from frappy.protocol.messages import REQUEST2REPLY
    cl = make_client()
    io = cl.io
    K = 'C11'
    unhandled = []
    cl.register_callback(None, unhandledMessage=lambda a, i, d: unhandled.append((a, i, d)) or True)
    entries = []
    for ri in p['mix']:
        try:
            entries.append(cl.queue_request(*REQS[ri]))
        except Exception as e:
            env.fail(K + '/queue_request-raised/' + type(e).__name__, repr(e))
            return
    reqs = [REQS[ri] for ri in p['mix']]
    keyof = [((REQUEST2REPLY.get(r[0]), r[1]) if REQUEST2REPLY.get(r[0]) else None) for r in reqs]
    completed = {}     # entry index -> reply
    active_model = {}  # key -> entry index   (independent model of the pending-request table)
    parked_model = []
    queue_model = list(range(len(entries)))
    timed_out = set()

    def rx(line):
        io.lines.append(line)
        io.allow = 1
        real_disconnect = cl.__dict__.get('disconnect')
        cl.disconnect = lambda *a, **k: None
        try:
            cl._SecopClient__rxthread()
        except StepDone:
            pass
        except Exception as e:
            env.fail(K + '/receive-loop-raised/' + type(e).__name__, repr(e))
        finally:
            del cl.disconnect
            cl._running = True

    def tx():
        cl.txq.allow = 1
        try:
            cl._SecopClient__txthread()
        except StepDone:
            pass
        except Exception as e:
            env.fail(K + '/transmit-loop-raised/' + type(e).__name__, repr(e))

    for step in range(p['steps']):
        kind = p['first'][step] if step < 2 else env.choice(f'step{step}', 4)   # 0 tx, 1 rx matching reply, 2 rx other message, 3 caller time-out
        if kind == 0:
            if not queue_model:
                continue
            i = queue_model.pop(0)
            nsent = len(io.sent)
            tx()
            if keyof[i] in active_model:
                parked_model.append(i)
                env.note('parked')
                env.check(len(io.sent) == nsent, K + '/colliding-request-sent-while-first-is-pending')
            else:
                active_model[keyof[i]] = i
                env.check(len(io.sent) == nsent + 1 and io.sent[-1] == encode_msg_frame(*reqs[i]), K + '/request-not-sent', reqs[i])
        elif kind == 1:
            if not active_model:
                continue
            keys = sorted(active_model, key=str)
            k = keys[env.choice(f'which{step}', len(keys))]
            i = active_model[k]
            iserr = env.choice(f'err{step}', 3)       # 0 reply, 1 error reply, 2 reply with a value the datatype refuses
            rq = reqs[i]
            if iserr == 2:
                if k is None or k[0] not in ('reply', 'changed'):
                    continue
                reply = (k[0], rq[1], ['abc', {}])
                rx(encode_msg_frame(*reply))
                active_model.pop(k)
                completed[i] = reply
                env.note('completed')
                env.check(entries[i][1].is_set(), K + '/reply-with-unusable-value-does-not-release-its-caller', [reqs[i]])
                queue_model = queue_model + parked_model
                parked_model = []
                continue
            if k is None:
                reply = ('error_' + rq[0], rq[1], ['ProtocolError', 'unknown', {}]) if iserr else ('xyz_reply', None, 5)
            elif iserr:
                reply = ('error_' + rq[0], rq[1], ['RangeError', 'bad', {}])
            else:
                reply = (k[0], rq[1], [1.5, {}] if k[0] != 'pong' else [None, {}])
            before = [e[2] for e in entries]
            rx(encode_msg_frame(*reply))
            active_model.pop(k)
            completed[i] = reply
            env.note('completed')
            for j, e in enumerate(entries):
                if j == i:
                    env.check(e[2] == reply and e[1].is_set(), K + '/reply-not-handed-to-its-request', [reqs[i], e[2]])
                else:
                    env.check(e[2] == before[j], K + '/reply-handed-to-another-caller', [j, reqs[j], e[2]])
            # parked requests are re-queued after every completion
            queue_model = queue_model + parked_model
            parked_model = []
            env.check([id(x) for x in cl.txq.items] == [id(entries[j]) for j in queue_model] or
                      sorted(id(x) for x in cl.txq.items) == sorted(id(entries[j]) for j in queue_model),
                      K + '/parked-requests-not-requeued', [len(cl.txq.items), len(queue_model)])
            env.check(cl.pending.empty(), K + '/parked-requests-left-after-completion')
        elif kind == 2:
            which = env.choice(f'msg{step}', 4)
            msg = [('update', 'm:a', [2.5, {'t': 1.0}]), ('reply', 'm:zz', [1, {}]), ('nonsense', 'x', None),
                   ('error_read', 'm:q', ['NoSuchParameter', 'x', {}])][which]
            if (msg[0], msg[1]) in active_model or ('reply', msg[1]) in active_model and msg[0] == 'error_read':
                continue
            if None in active_model and which in (1, 2):
                continue    # an unknown reply is (by design) given to the one experimental request
            before = [e[2] for e in entries]
            nset = [e[1].nset for e in entries]
            rx(encode_msg_frame(*msg))
            for j, e in enumerate(entries):
                env.check(e[2] == before[j] and e[1].nset == nset[j], K + '/unrelated-message-completed-a-request', [msg, reqs[j]])
        else:
            # the caller of the oldest uncompleted request gives up
            waiting = [j for j in range(len(entries)) if j not in completed and j not in timed_out]
            if not waiting:
                continue
            j = waiting[0]
            try:
                cl.get_reply(entries[j])
                env.fail(K + '/get_reply-returned-without-reply')
            except TimeoutError:
                timed_out.add(j)
                env.note('timeout')
            except Exception as e:
                env.fail(K + '/timeout-raised-other/' + type(e).__name__, repr(e))
            # the receive loop cleans the table at its next iteration: a later request with the same key is not blocked
            rx(encode_msg_frame('update', 'm:a', [2.5, {'t': 1.0}]))
            if keyof[j] in active_model and active_model[keyof[j]] == j:
                active_model.pop(keyof[j])
            env.check(all(v is not entries[j] for v in cl.active_requests.values()), K + '/timed-out-request-still-blocks-its-key')
    # every caller whose request was answered gets exactly that answer (or the error it carries)
    for i, reply in completed.items():
        if i in timed_out or reply[2] == ['abc', {}]:
            continue
        try:
            r = cl.get_reply(entries[i])
            env.check(not reply[0].startswith('error_') and r == reply, K + '/get_reply-result', [reply, r])
        except Exception as e:
            env.check(reply[0].startswith('error_') and type(e).__name__ in ('RangeError', 'ProtocolError'), K + '/get_reply-raised',
                      [reply, type(e).__name__])
    env.check(all(e[1].nset <= 1 for e in entries), K + '/request-completed-twice')
    # the connection may break exactly while the next queued request is transmitted
    if queue_model and env.choice('break-at-send', 2):
        io.broken = True
        i = queue_model[0]
        cl.txq.allow = 1
        try:
            cl._SecopClient__txthread()
        except StepDone:
            pass
        except OSError:
            pass      # the transmit thread dies with the connection; the receive thread notices and disconnects
        except Exception as e:
            env.fail(K + '/transmit-loop-raised/' + type(e).__name__, repr(e))
    # connection lost / shut down: every waiting caller is released with a connection error
    shutdown = bool(env.choice('shutdown', 2))
    cl._txthread = None
    cl._rxthread = None
    try:
        cl.disconnect(shutdown)
    except Exception as e:
        env.fail(K + '/disconnect-raised/' + type(e).__name__, repr(e))
        return
    env.note('released-by-disconnect')
    for i, e in enumerate(entries):
        if i in completed or i in timed_out:
            continue
        if not env.check(e[1].is_set(), K + '/waiting-caller-not-released-on-disconnect', [reqs[i], i in active_model.values(), i in parked_model]):
            continue
        try:
            cl.get_reply(e)
            env.fail(K + '/released-caller-got-a-reply')
        except ConnectionError:
            pass
        except Exception as ex:
            env.fail(K + '/released-caller-got-other-error/' + type(ex).__name__, repr(ex))
    env.check(cl.io is None and cl._txthread is None and cl._rxthread is None, K + '/worker-state-after-disconnect')
    env.check(not cl.active_requests and cl.pending.empty(), K + '/tables-not-empty-after-disconnect')
