"""C10 -- configuration is applied faithfully; erroneous configuration is rejected whole

config built with the real Mod/Param/Node/Config DSL objects, processed by the real
Server._processCfg; configured values and limit overrides are symbolic, the kinds of
error present are chosen by symbolic selectors."""
import threading

import dtmodel as M
import common as C
from C15_lifecycle import build_server, World

PROPERTY = 'C10'
FUNCTIONS = ['frappy.config.{Mod,Param,Group,Node,Config.merge_modules}', 'frappy.modulebase.Module.{__init__,_add_accessible,_handle_writes,'
             'writeInitParams,__pollThread}', 'frappy.params.Parameter.{setProperty,checkProperties,finish}',
             'frappy.properties.HasProperties.checkProperties', 'frappy.secnode.SecNode.{create_modules,get_module_instance}',
             'frappy.server.Server._processCfg']
ASSUMPTIONS = ['one catalogue module class (mandatory and optional module property, float parameter with write method, needscfg parameter, '
               'string parameter, enum parameter); two module sections; configured value and min/max overrides symbolic',
               'module sections are built with the real Mod(...)/Param(...) objects (the DSL wraps bare values), the merged dict is handed to '
               'Server._processCfg; text files on disk and the config search path are outside the claim',
               'configured values are assumed inside the (overridden) limits: a start value outside its limits is not in the list of errors the property names']
REQUIRED_TAGS = ['applied', 'rejected']
LIMITS = {'quick': {'max_paths': 20000, 'max_s': 150}, 'thorough': {'max_paths': 200000, 'max_s': 900}}

ERRORS = ['none', 'unknown-module-property', 'unknown-parameter', 'unknown-parameter-property', 'wrong-kind-value',
          'missing-mandatory-property', 'missing-needscfg-value', 'inverted-limits', 'wrong-kind-property', 'bad-enum-value',
          'missing-needscfg-value-with-default', 'inverted-member-limits', 'unknown-property-on-limit', 'unimplemented-optional-accessible']


def cases(tier):
    out = []
    for e1 in ERRORS:
        for e2 in (ERRORS if tier == 'thorough' else ['none', 'unknown-parameter', 'inverted-limits']):
            out.append({'fn': 'run_config', 'id': f'{e1}+{e2}', 'params': {'errors': [e1, e2]}})
    out.append({'fn': 'run_merge', 'id': 'merge', 'params': {}})
    out.append({'fn': 'run_dsl', 'id': 'dsl', 'params': {}})
    return out


def make_class(log):
    from frappy.core import Readable, Parameter, Property, FloatRange, IntRange, StringType, EnumType, ArrayOf
    from frappy.params import Limit

    class Base(Readable):
        optpar = Parameter('optional parameter not implemented by the subclass', FloatRange(), optional=True)

    class Cfg(Base):
        needed = Property('mandatory property', FloatRange(), mandatory=True)
        opt = Property('optional property', IntRange(0, 10), default=1)
        pf = Parameter('float', FloatRange(0, 100, unit='K'), readonly=False, default=1)
        pn = Parameter('needs cfg', FloatRange(), needscfg=True)
        ps = Parameter('string', StringType(), readonly=False, default='')
        pe = Parameter('enum', EnumType('e', a=1, b=2), readonly=False, default=1)
        pn2 = Parameter('needs cfg although it has a default', FloatRange(), needscfg=True, default=1.0)
        pa = Parameter('array', ArrayOf(FloatRange(0, 10), 0, 3), readonly=False, default=[])
        other = Parameter('parameter with a limit parameter', FloatRange(0, 10), readonly=False, default=0)
        other_max = Limit()

        def write_pf(self, value):
            log.append(('write_pf', self.name, value))
            return value

        def read_value(self):
            log.append(('read', self.name))
            return 1.0

        def read_status(self):
            return (100, '')

        def doPoll(self):
            log.append(('poll', self.name))
            super().doPoll()
    return Cfg


def section(env, name, cls, err, tag):
    """one module section built with the real DSL; returns (Mod, expectations)"""
    from frappy.config import Mod, Param
    if tag == 'm3':
        lo, hi, v = 0.5, 90.0, 2.5      # the third module: concrete numbers (keeps the queries small)
    else:
        lo = env.real(tag + '.min', 0, 100)
        hi = env.real(tag + '.max', 0, 100)
        v = env.real(tag + '.value', 0, 100)
    if tag == 'm3':
        pass
    elif err == 'inverted-limits':
        env.assume(lo > hi)
    else:
        env.assume(M.And(lo <= v, v <= hi))
    kw = {'needed': 1.5, 'opt': 3, 'pf': Param(v, min=lo, max=hi), 'pn': Param(7.0), 'pn2': 2.0, 'ps': 'text', 'pe': 'b'}
    if err == 'unknown-module-property':
        kw['zz'] = 1
    elif err == 'unknown-parameter':
        kw['nopar'] = Param(1)
    elif err == 'unknown-parameter-property':
        kw['ps'] = Param('text', nonsense=1)
    elif err == 'wrong-kind-value':
        kw['pf'] = Param('text', min=lo, max=hi)
    elif err == 'missing-mandatory-property':
        del kw['needed']
    elif err == 'missing-needscfg-value':
        del kw['pn']
    elif err == 'missing-needscfg-value-with-default':
        del kw['pn2']
    elif err == 'inverted-member-limits':
        kw['pa'] = Param(min=5, max=1)
    elif err == 'unknown-property-on-limit':
        kw['other_max'] = Param(nonsense=1)
    elif err == 'unimplemented-optional-accessible':
        kw['optpar'] = Param(1.0)
    elif err == 'wrong-kind-property':
        kw['opt'] = 'many'
    elif err == 'bad-enum-value':
        kw['pe'] = 'zz'
    mod = Mod(name, cls, 'description of ' + name, **kw)
    return mod, {'lo': lo, 'hi': hi, 'v': v}


def run_config(env, p):
    from frappy.config import Config, Collector, NodeCollector, Mod
    w = World()
    w.env = env
    w.log = []
    cls = make_class(w.log)
    nopoll = type('CfgNoPoll', (cls,), {'enablePoll': False})     # a module without polling has its configured values written as well
    mods = Collector(Mod)
    exp = {}
    names = ['m1', 'm2', 'm3']
    errors = list(p['errors']) + ['none']
    for name, err in zip(names, errors):
        mod, exp[name] = section(env, name, nopoll if name == 'm3' else cls, err, name)
        mods.append(mod)
    node = NodeCollector()
    node.add('eq', 'node description', 'tcp://1')
    config = Config(node, mods)
    config.pop('node')
    cfgdict = dict(config)
    srv = build_server(env, w, cfgdict)
    K = 'C10'
    orig_wait = threading.Event.wait

    def fake_wait(self, timeout=None):
        for t in list(w.threads):
            t.run()
        return self._flag
    threading.Event.wait = fake_wait
    started = False
    try:
        try:
            srv._processCfg()
            started = True
        except SystemExit:
            pass
        except Exception as e:
            env.fail(K + '/processCfg-raised/' + type(e).__name__, repr(e)[:200])
            return
    finally:
        threading.Event.wait = orig_wait
    bad = [n for n, e in zip(names, errors) if e != 'none']
    if bad:
        env.note('rejected')
        env.check(not started, K + '/erroneous-configuration-accepted/' + '+'.join(p['errors']))
        txt = '\n'.join(srv.secnode.errors)
        for n, e in zip(names, errors):
            if e != 'none':
                env.check(n not in srv.secnode.modules, K + f'/{e}/failing-module-registered', n)
                env.check(n in txt, K + f'/{e}/failing-module-not-reported', txt[:300])
                hint = {'unknown-module-property': 'zz', 'unknown-parameter': 'nopar', 'unknown-parameter-property': 'nonsense',
                        'wrong-kind-value': 'pf', 'missing-mandatory-property': 'needed', 'missing-needscfg-value': 'pn',
                        'inverted-limits': 'min', 'wrong-kind-property': 'opt', 'bad-enum-value': 'pe',
                        'missing-needscfg-value-with-default': 'pn2', 'inverted-member-limits': 'pa', 'unknown-property-on-limit': 'other_max', 'unimplemented-optional-accessible': 'optpar'}[e]
                if e not in ('unknown-parameter-property', 'unknown-property-on-limit'):   # reported as 'error creating <module>' only (cause goes to the log)
                    env.check(hint in txt, K + f'/{e}/error-not-named', txt[:300])
        return
    env.note('applied')
    if not env.check(started, K + '/valid-configuration-rejected', srv.secnode.errors[:4]):
        return
    desc = srv.secnode.get_descriptive_data('')
    for n in names:
        m = srv.secnode.modules[n]
        e = exp[n]
        info = desc['modules'][n]['accessibles']['_pf']['datainfo']
        env.check(M.eq(info.get('min'), e['lo']) and M.eq(info.get('max'), e['hi']) or
                  M.And(M.eq(info.get('min', 0.0), e['lo']), M.eq(info.get('max'), e['hi'])), K + '/described-limits-not-overridden')
        env.check(info.get('unit') == 'K', K + '/unit-lost')
        env.check(M.eq(m.pf, e['v']), K + '/start-value-differs-from-configured')
        env.check(m.needed == 1.5 and m.opt == 3 and m.pn == 7.0 and m.ps == 'text' and m.pe == 2, K + '/other-settings-not-applied',
                  [m.needed, m.opt, m.pn, m.ps, int(m.pe)])
        env.check(desc['modules'][n]['description'] == 'description of ' + n, K + '/description')
        # handed to the write method exactly once, before the first poll
        writes = [i for i, x in enumerate(w.log) if x[0] == 'write_pf' and x[1] == n]
        polls = [i for i, x in enumerate(w.log) if x[0] in ('poll', 'read') and x[1] == n]
        if env.check(len(writes) == 1, K + '/configured-value-not-written-exactly-once', len(writes)):
            env.check(M.eq(w.log[writes[0]][2], e['v']), K + '/written-value-differs')
            if n != 'm3':
                env.check(bool(polls) and writes[0] < polls[0], K + '/poll-before-configured-write')
            else:
                env.check(not [i for i in polls if w.log[i][0] == 'poll'], K + '/polling-although-disabled')
        # later range checks use the overridden limits
        x = env.real(n + '.probe', -50, 150)
        from frappy.errors import RangeError
        try:
            m.write_pf(x)
            accepted = True
        except RangeError:
            accepted = False
        prec = M.absv(x) * 1.2e-7
        inside = M.And(e['lo'] - prec <= x, x <= e['hi'] + prec)
        env.check(inside if accepted else M.Not(inside), K + '/range-check-ignores-configured-limits', accepted)
    # the loaded configuration is not consumed by being applied: a restart of the node (Server.run loops over _processCfg with
    # the configuration loaded once) gives the same start values and the same writes
    try:
        srv.secnode.shutdown_modules()
    except Exception as e:
        env.fail(K + '/shutdown-raised/' + type(e).__name__, repr(e))
        return
    w2 = World()
    w2.env = env
    w2.log = w.log
    n0 = len(w.log)
    srv2 = build_server(env, w2, cfgdict)
    threading.Event.wait = lambda self, timeout=None: ([t.run() for t in list(w2.threads)], self._flag)[1]
    try:
        try:
            srv2._processCfg()
        except SystemExit:
            env.fail(K + '/restart/valid-configuration-rejected', srv2.secnode.errors[:3])
            return
        except Exception as e:
            env.fail(K + '/restart/processCfg-raised/' + type(e).__name__, repr(e)[:200])
            return
    finally:
        threading.Event.wait = orig_wait
    for n in names:
        m = srv2.secnode.modules[n]
        env.check(M.eq(m.pf, exp[n]['v']), K + '/restart/start-value-differs-from-configured', n)
        env.check(m.needed == 1.5 and m.opt == 3 and m.pn == 7.0 and m.ps == 'text' and m.pe == 2, K + '/restart/other-settings-not-applied', n)
        writes = [x for x in w.log[n0:] if x[0] == 'write_pf' and x[1] == n]
        env.check(len(writes) == 1 and M.eq(writes[0][2], exp[n]['v']), K + '/restart/configured-value-not-written-exactly-once', [n, len(writes)])
    # the same class configured twice: sections are independent (see also C09)
    env.check(srv.secnode.modules['m1'].parameters['pf'].datatype is not srv.secnode.modules['m2'].parameters['pf'].datatype,
              K + '/datatype-shared-between-instances')


def run_merge(env, p):
    """several config files: first definition of a module wins, node from the first file, origin recorded"""
    from frappy.config import Config, Collector, NodeCollector, Mod
    log = []
    cls = make_class(log)

    def cfgfile(eq, modnames, value):
        mods = Collector(Mod)
        for n in modnames:
            mods.append(Mod(n, cls, 'from ' + eq, needed=1.0, pn=value))
        node = NodeCollector()
        node.add(eq, 'node ' + eq, 'tcp://1')
        return Config(node, mods)
    which = env.choice('layout', 3)
    layouts = [(['a', 'b'], ['c']), (['a'], ['a', 'b']), (['a', 'b'], ['b', 'a'])]
    first, second = layouts[which]
    c1 = cfgfile('eq1', first, 1.0)
    c2 = cfgfile('eq2', second, 2.0)
    c1.merge_modules(c2)
    K = 'C10/merge'
    env.check(c1['node']['equipment_id'] == 'eq1', K + '/node-not-from-first-file')
    for n in set(first) | set(second):
        env.check(n in c1, K + '/module-lost', n)
        origin = 'eq1' if n in first else 'eq2'
        env.check(c1[n]['description'] == 'from ' + origin, K + '/later-file-overrides-earlier', n)
        env.check(c1[n].get('original_id') == (None if origin == 'eq1' else 'eq2'), K + '/original-id', n)
    env.check(c1.ambiguous == (set(first) & set(second)), K + '/ambiguous-sections-not-detected', sorted(c1.ambiguous))
    env.note('applied')
    env.note('rejected')


def run_dsl(env, p):
    """Mod(): name check, bare values become Param, groups"""
    from frappy.config import Mod, Param, Group
    from frappy.errors import ConfigError
    K = 'C10/dsl'
    names = ['m', 'm_1', 'M9', '9m', 'm-1', '', 'a' * 63, 'a' * 64, '_m', 'mé']
    nm = names[env.choice('name', len(names))]
    import re
    valid = bool(re.match(r'^[a-zA-Z][a-zA-Z0-9_]{0,62}$', nm))
    try:
        mod = Mod(nm, 'x.Y', 'd', a=1, b=Param(2, unit='K'), grp=Group('a', 'b'))
        ok = True
    except ConfigError:
        ok = False
    env.check(ok == valid, K + '/module-name-check', [nm, ok])
    if ok:
        env.check(mod['a'] == {'value': 1, 'group': 'grp'} and mod['b'] == {'value': 2, 'unit': 'K', 'group': 'grp'}, K + '/param-wrapping',
                  [mod['a'], mod['b']])
        env.check('grp' not in mod, K + '/group-kept-as-parameter')
    env.note('applied')
    env.note('rejected')
