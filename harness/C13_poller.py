"""C13 -- poller: bounded staleness, no starvation, survives failing reads

The real Module.__pollThread body runs in the calling thread, in virtual time:
every read/doPoll of the fake drivers advances the clock by a symbolic duration
and fails according to symbolic flags; triggerPoll.wait(t) advances the clock
by t (plus a tiny oversleep); after K wake-ups the stub empties the module list
(the documented stop mechanism)."""
import common as C
import dtmodel as M

PROPERTY = 'C13'
FUNCTIONS = ['frappy.modulebase.Module.{__pollThread,callPollFunc,writeInitParams,setFastPoll,initModule}',
             'frappy.modulebase.PollInfo.{trigger,update_interval}', 'frappy.modules.Readable.doPoll', 'frappy.rwhandler.nopoll']
ASSUMPTIONS = ['virtual time: t0 in [1000, 1100]; the first 2 (thorough: 3) poll functions that run take a symbolic duration in [0, 8] s, later ones 0.01 s; '
               'time.time() itself advances the clock by 1 us per call; Event.wait(t) returns after t + 1 ms unless the event is set',
               'failure kinds of the first 2 read functions are symbolic out of {ok, SECoP error, silent SECoP error, ValueError, communication failure}',
               'poll/slow intervals from the catalogue {(1,2), (5,5)} (thorough adds (0.5,0.5), (0.5,5), (1,5), (1,15), (5,15)) (division by a symbolic interval would be non linear); pollinterval 0 via run-time change',
               'horizon: K = 3 (quick) / 4 (thorough) wake-ups (one less with 2 modules or a run-time change) of the thread, 1 or 2 modules on the thread',
               'real threads / real time are outside the claim']
REQUIRED_TAGS = ['polled', 'failed-read-survived', 'slow-poll']
LIMITS = {'quick': {'max_paths': 6000, 'max_s': 170}, 'thorough': {'max_paths': 60000, 'max_s': 1200}}

FAILS = ['ok', 'secop', 'silent', 'other', 'comm']


class Stop(BaseException):
    pass


class FakeEvent:
    """triggerPoll: wait(t) advances virtual time; after K waits the module list is emptied"""
    def __init__(self, world):
        self.w = world
        self.flag = False

    def set(self):
        self.flag = True

    def clear(self):
        self.flag = False

    def is_set(self):
        return self.flag

    def wait(self, timeout=None):
        w = self.w
        if w.wakeups > 3 * w.K + 6:
            raise Stop('waits without end')     # the loop does not honour the documented stop mechanism any more
        w.env.budget('wait', 60)
        w.log.append(('wait', w.clock.now, timeout))
        if not self.flag:
            w.clock.now = w.clock.now + timeout + 0.001
        w.wakeups += 1
        if w.on_wakeup:
            w.on_wakeup(w.wakeups)
        if w.wakeups >= w.K:
            w.modules.clear()
        return self.flag


class TickClock(C.VirtualClock):
    def __init__(self, now, env):
        super().__init__(now)
        self.env = env

    calls = 0
    world = None

    def time(self):
        self.calls += 1
        if self.calls > 600:
            # horizon for a thread that never sleeps: stop it the documented way and remember
            self.world.never_slept = True
            self.world.modules.clear()
        self.env.budget('time', 700)
        self.now = self.now + 1e-6
        return self.now


class World:
    pass


def build(env, p):
    from frappy.core import Readable, Parameter, FloatRange, Property
    from frappy.rwhandler import nopoll
    from frappy.errors import HardwareError, CommunicationFailedError, SilentCommunicationFailedError, TimeoutSECoPError
    import frappy.modulebase as mb
    w = World()
    w.env = env
    if p.get('persistent') or p.get('concrete_t0'):
        t0 = [1000.0, 1000.37, 1003.999][env.choice('t0', 3)]
    else:
        t0 = env.real('t0', 1000, 1100)
    w.clock = TickClock(t0, env)
    w.clock.world = w
    w.never_slept = False
    mb.time = w.clock
    w.log = []
    w.wakeups = 0
    w.K = p['K']
    w.on_wakeup = None
    w.nfunc = 0
    w.nfail = 0
    w.comm_failed_at = []
    if p.get('dopoll_fail'):
        w.dopoll_kind = ['secop', 'silent', 'comm', 'other', 'timeout'][env.choice('dopollkind', 5)]
    if p.get('initial_fail'):
        w.initial_kind = ['secop', 'silent', 'other', 'comm', 'timeout'][env.choice('initialkind', 5)]
    if p.get('persistent'):
        w.persistent_name = ['value', 'status', 'p1'][env.choice('failing', 3)]
        w.persistent_kind = ['secop', 'silent', 'other', 'comm', 'timeout'][env.choice('failkind', 5)]

    class SilentHW(HardwareError):
        silent = True

    def work(mod, name):
        i = w.nfunc
        w.nfunc += 1
        start = w.clock.now
        dur = env.real(f'dur{i}', 0, 8) if i < p.get('nsym', 2) else 0.01
        kind = 'ok'
        if p.get('persistent') and name == w.persistent_name:
            kind = w.persistent_kind
        elif w.nfail < p.get('nfailsym', 2) and name != 'doPoll':
            kind = FAILS[env.choice(f'fail{w.nfail}', len(FAILS))]
            w.nfail += 1
        w.clock.now = w.clock.now + dur
        w.log.append(('func', mod.name, name, start, w.clock.now, kind))
        if kind == 'secop':
            raise HardwareError('hw')
        if kind == 'silent':
            raise SilentHW('silent')
        if kind == 'comm':
            w.comm_failed_at.append(start)
            raise SilentCommunicationFailedError('no reply (attempt %d)' % len(w.comm_failed_at))
        if kind == 'other':
            raise ValueError('bug')
        if kind == 'timeout':
            raise TimeoutSECoPError('no answer')
        return 1.0

    class Drv(Readable):
        p1 = Parameter('slow polled', FloatRange(), default=0)
        p2 = Parameter('not polled', FloatRange(), default=0)
        p3 = Parameter('no read method', FloatRange(), default=0)

        def read_value(self):
            return work(self, 'value')

        def read_status(self):
            work(self, 'status')
            return (100, '')

        def read_p1(self):
            return work(self, 'p1')

        @nopoll
        def read_p2(self):
            return work(self, 'p2')

        if p.get('nopoll_value'):
            read_value = nopoll(read_value)      # the main value marked as not polled

        if p.get('initial_fail'):
            def initialReads(self):
                # the documented use: read once at start-up what is not polled afterwards - and that read fails
                if self.name == p.get('initial_fail_mod', 'm0'):
                    kind = w.initial_kind
                    w.log.append(('func', self.name, 'initialReads', w.clock.now, w.clock.now, kind))
                    if kind == 'secop':
                        raise HardwareError('initial')
                    if kind == 'silent':
                        raise SilentHW('initial')
                    if kind == 'comm':
                        w.comm_failed_at.append(w.clock.now)
                        raise CommunicationFailedError('initial')
                    if kind == 'timeout':
                        raise TimeoutSECoPError('initial')
                    raise ValueError('initial')

        def doPoll(self):
            w.log.append(('doPoll', self.name, w.clock.now))
            if len([e for e in w.log if e[0] == 'doPoll']) > p.get('maxpolls', 8):
                w.modules.clear()   # horizon for busy polling (interval 0 never waits)
            if p.get('dopoll_fail') and self.name == 'm0':
                # an error raised by the poll function itself, not inside a read_<parameter> method
                n = len([e for e in w.log if e[0] == 'doPoll' and e[1] == 'm0'])
                if n % 2 == 1:
                    kind = w.dopoll_kind
                    w.log.append(('func', self.name, 'doPoll-direct', w.clock.now, w.clock.now, kind))
                    if kind == 'secop':
                        raise HardwareError('direct')
                    if kind == 'silent':
                        raise SilentHW('direct')
                    if kind == 'comm':
                        raise CommunicationFailedError('direct')
                    if kind == 'timeout':
                        raise TimeoutSECoPError('direct')
                    raise ValueError('direct')
            super().doPoll()

    cfg = {}
    for i in range(p['nmod']):
        slow = p['slow'] if i == 0 else p.get('slow2', p['slow'])
        cfg[f'm{i}'] = {'cls': Drv, 'description': 'm', 'pollinterval': {'value': p['interval']}, 'slowinterval': slow}
    srv = C.make_node(cfg)
    mods = [srv.secnode.modules[f'm{i}'] for i in range(p['nmod'])]
    ev = FakeEvent(w)
    # all modules share the poll thread of the first one (as modules sharing an io do)
    main = mods[0]
    main.triggerPoll = ev
    main.polledModules[:] = mods
    for m in mods[1:]:
        m.polledModules.clear()
    w.modules = main.polledModules
    w.mods = mods
    w.main = main
    w.started = []
    return w


def cases(tier):
    out = []
    thorough = tier == 'thorough'
    K = 4 if thorough else 3
    intervals = [(1, 2), (5, 5)] if not thorough else [(0.5, 0.5), (0.5, 5), (1, 2), (1, 5), (1, 15), (5, 5), (5, 15)]
    for interval, slow in intervals:
        for nmod in (1, 2):
            if nmod == 2 and not thorough and (interval, slow) != (1, 2):
                continue
            out.append({'fn': 'run_poll', 'id': f'poll/i{interval}-s{slow}/mods{nmod}',
                        'params': {'interval': interval, 'slow': slow, 'nmod': nmod, 'K': K if nmod == 1 else K - 1, 'change': None,
                                   'nsym': 2 if nmod == 1 or thorough else 1, 'nfailsym': 2 if nmod == 1 or thorough else 1}})
    out.append({'fn': 'run_poll', 'id': 'different-slow-intervals', 'params': {'interval': 1, 'slow': 2, 'slow2': 60, 'nmod': 2, 'K': 14,
                                                                             'change': None, 'nsym': 0, 'nfailsym': 1, 'concrete_t0': True, 'maxpolls': 60}})
    out.append({'fn': 'run_poll', 'id': 'different-slow-intervals/owner-slow', 'params': {'interval': 1, 'slow': 60, 'slow2': 2, 'nmod': 2, 'K': 14,
                                                                                        'change': None, 'nsym': 0, 'nfailsym': 1, 'concrete_t0': True, 'maxpolls': 60}})
    out.append({'fn': 'run_poll', 'id': 'nopoll-on-value', 'params': {'interval': 1, 'slow': 2, 'nmod': 1, 'K': 4, 'change': None,
                                                                    'nsym': 0, 'nfailsym': 0, 'concrete_t0': True, 'nopoll_value': True}})
    out.append({'fn': 'run_poll', 'id': 'persistent-failure', 'params': {'interval': 1, 'slow': 2, 'nmod': 2, 'K': 12, 'change': None,
                                                                       'nsym': 0, 'nfailsym': 0, 'persistent': True, 'maxpolls': 60}})
    out.append({'fn': 'run_poll', 'id': 'change-fast2', 'params': {'interval': 5, 'slow': 15, 'nmod': 1, 'nsym': 1, 'nfailsym': 0,
                                                                 'K': 5, 'change': 'fast2'}})
    out.append({'fn': 'run_poll', 'id': 'dopoll-raises-directly', 'params': {'interval': 1, 'slow': 2, 'nmod': 2, 'K': 8, 'change': None,
                                                                           'nsym': 0, 'nfailsym': 0, 'dopoll_fail': True, 'maxpolls': 40,
                                                                           'concrete_t0': True}})
    out.append({'fn': 'run_poll', 'id': 'initial-reads-raise', 'params': {'interval': 1, 'slow': 2, 'nmod': 2, 'K': 6, 'change': None,
                                                                        'nsym': 0, 'nfailsym': 0, 'initial_fail': True, 'maxpolls': 40,
                                                                        'concrete_t0': True}})
    out.append({'fn': 'run_poll', 'id': 'initial-reads-raise/other-module', 'params': {'interval': 1, 'slow': 2, 'nmod': 2, 'K': 6, 'change': None,
                                                                                     'nsym': 0, 'nfailsym': 0, 'initial_fail': True,
                                                                                     'initial_fail_mod': 'm1', 'maxpolls': 40, 'concrete_t0': True}})
    out.append({'fn': 'run_poll', 'id': 'change-interval-while-fast', 'params': {'interval': 5, 'slow': 15, 'nmod': 1, 'nsym': 0, 'nfailsym': 0,
                                                                               'K': 7, 'change': 'interval-while-fast', 'maxpolls': 40,
                                                                               'concrete_t0': True}})
    for change in ('interval', 'fast', 'zero'):
        out.append({'fn': 'run_poll', 'id': f'change-{change}', 'params': {'interval': 5, 'slow': 15, 'nmod': 1, 'nsym': 2 if thorough else 1,
                                                                          'nfailsym': 2 if thorough else 1,
                                                                          'K': K if change == 'interval' and thorough else K - 1, 'change': change}})
    return out


def run_poll(env, p):
    w = build(env, p)
    K_ = 'C13'
    change_at = None
    if p['change']:
        change_at = 1 + env.choice('change_at', max(1, p['K'] - 1))

        def on_wakeup(n):
            if p['change'] == 'interval-while-fast':
                # fast polling on, the poll interval is changed meanwhile, fast polling off: the new interval counts
                if n == 1:
                    w.mods[0].setFastPoll(True, 0.25)
                elif n == 2:
                    w.mods[0].pollinterval = 1.0
                elif n == 3:
                    w.log.append(('change', w.clock.now))
                    w.mods[0].setFastPoll(False)
                return
            if p['change'] == 'fast2':
                if n == 1:
                    w.mods[0].setFastPoll(True, 2.0)
                elif n == 2:
                    w.log.append(('change', w.clock.now))
                    w.mods[0].setFastPoll(True, 0.25)
                return
            if n == change_at:
                m = w.mods[0]
                w.log.append(('change', w.clock.now))
                if p['change'] == 'interval':
                    m.pollinterval = 1.0   # assignment -> callback -> PollInfo.update_interval
                elif p['change'] == 'zero':
                    m.pollInfo.interval = 0
                else:
                    m.setFastPoll(True, 0.25)
        w.on_wakeup = on_wakeup
    try:
        w.main._Module__pollThread(w.modules, lambda: w.started.append(w.clock.now))
    except Stop:
        env.fail(K_ + '/poll-thread-stuck', [e for e in w.log if e[0] != 'func'][-4:])
        return
    except Exception as e:
        env.fail(K_ + '/poll-thread-died/' + type(e).__name__, repr(e))
        return
    env.check(len(w.started) == 1, K_ + '/started-callback-not-called-once', len(w.started))
    if p['change'] != 'zero':
        env.check(not w.never_slept, K_ + '/poll-thread-never-sleeps')
    funcs = [e for e in w.log if e[0] == 'func']
    polls = [e for e in w.log if e[0] == 'doPoll']
    # never polled: p2 (nopoll), p3 (no read method)
    unpolled = ('p2', 'p3', 'value') if p.get('nopoll_value') else ('p2', 'p3')
    env.check(not [e for e in funcs if e[2] in unpolled], K_ + '/unpolled-parameter-read', sorted({e[2] for e in funcs if e[2] in unpolled}))
    if any(e[5] != 'ok' for e in funcs):
        env.note('failed-read-survived')
    end = w.clock.now
    interval = p['interval']
    for mi, m in enumerate(w.mods):
        slow = p['slow'] if mi == 0 else p.get('slow2', p['slow'])
        mp = [e for e in polls if e[1] == m.name]
        # initial round: every polled parameter read once before the started callback
        first = [e for e in funcs if e[1] == m.name and e[3] < w.started[0] and e[2] != 'initialReads']
        if not [t for t in w.comm_failed_at if t <= w.started[0]]:
            # (a communication failure at start-up ends the first round by design)
            env.check({e[2] for e in first} == {'value', 'status', 'p1'} - set(unpolled), K_ + '/initial-reads', sorted({e[2] for e in first}))
        if mp:
            env.note('polled')
        # main poll: started again no later than interval + the work done in between (one sweep) + wake-up slack
        times = [w.started[0]] + [e[2] for e in mp]
        for a, b in zip(times, times[1:] + [end]):
            work_between = sum([e[4] - e[3] for e in funcs if a <= e[3] < b], 0)
            cur = interval
            if p['change'] == 'interval':
                cur = interval   # the old interval is an upper bound of both
            env.check(b - a <= cur + work_between + 0.01, K_ + '/main-poll-later-than-interval-plus-one-sweep', [m.name])
        # slow polls: refreshed within a bounded multiple of the slow interval (plus the work in between)
        p1 = [e for e in funcs if e[1] == m.name and e[2] == 'p1']
        if len(p1) > 1:
            env.note('slow-poll')
        pt = [e[3] for e in p1]
        for a, b in zip(pt, pt[1:] + [end]):
            work_between = sum([e[4] - e[3] for e in funcs if a <= e[3] < b], 0)
            env.check(b - a <= 2 * slow + interval + work_between + 0.01, K_ + '/slow-poll-starved', [m.name])
    # an interval change takes effect from the next wake-up
    if p['change'] and any(e[0] == 'change' for e in w.log):
        tchange = [e[1] for e in w.log if e[0] == 'change'][0]
        new = {'interval': 1.0, 'fast': 0.25, 'zero': 0, 'fast2': 0.25, 'interval-while-fast': 1.0}[p['change']]
        later = [e[2] for e in polls if e[2] > tchange]
        if later:
            # first poll after the change comes no later than the new interval (+ work) after the change
            work_between = sum([e[4] - e[3] for e in funcs if tchange <= e[3] < later[0]], 0)
            env.check(later[0] - tchange <= new + work_between + 0.01, K_ + '/interval-change-not-effective-at-next-wakeup',
                      p['change'])
            for a, b in zip(later, later[1:]):
                work_between = sum([e[4] - e[3] for e in funcs if a <= e[3] < b], 0)
                env.check(b - a <= new + work_between + 0.01, K_ + '/new-interval-not-used', p['change'])
