"""C12 -- client cache and callbacks mirror the node end to end

(a) a real SecopClient initialised from the real description of a catalogue node
    processes message sequences (symbolic values and time stamps) one receive-loop
    iteration at a time; (b) end to end without sockets: client.setParameter(v)
    -> client export -> node import/validate -> fake driver -> node export ->
    client import, with symbolic v."""
import dtmodel as M
import common as C
from C11_client_requests import StepQueue, FakeIO, VEvent, StepDone

PROPERTY = 'C12'
FUNCTIONS = ['frappy.client.SecopClient.{__rxthread,updateValue,_init_descriptive_data,setParameter,readParameter,execCommand,internalize_name}',
             'frappy.client.ProxyClient.{register_callback,unregister_callback,callback,updateValue}', 'frappy.client.CacheItem',
             'frappy.errors.make_secop_error', 'frappy.datatypes.*.{export_value,import_value}',
             'frappy.protocol.dispatcher.Dispatcher.handle_request (node side of the composition)']
ASSUMPTIONS = ['the description comes from the real node (C04 catalogue module) and is handed to the client as python objects',
               'messages reach the receive loop through a stub of decode_msg that returns prepared triples (so that values and time stamps stay '
               'symbolic); JSON text is C07\'s subject. Sequences of <= 3 (quick) / 4 (thorough) messages chosen by symbolic selectors',
               'end to end: the request triple produced by the client is handed to the real dispatcher, the reply triple back to the client '
               '(no TCP, no threads); the same through a proxy node (frappy.proxy.proxy_class) in front of the node']
REQUIRED_TAGS = ['update', 'error-update', 'callback', 'end-to-end']
ACCEPTED_FLAGS = {'hash-of-nonintegral-real': 'see C01'}
LIMITS = {'quick': {'max_paths': 30000, 'max_s': 150}, 'thorough': {'max_paths': 300000, 'max_s': 900}}

MSGKINDS = ['update', 'error_update', 'reply', 'changed', 'error_read', 'unknown-param', 'shorthand', 'malformed', 'shorthand-value']


def cases(tier):
    depth = 4 if tier == 'thorough' else 3
    out = []
    for k in range(len(MSGKINDS)):
        for reg in ('before', 'middle', 'unregister'):
            out.append({'fn': 'run_messages', 'id': f'messages/{MSGKINDS[k]}/{reg}', 'params': {'first': k, 'depth': depth, 'reg': reg}})
    for pname, cand in (('pf', 'float'), ('pf', 'int'), ('pi', 'int'), ('pbig', 'bigint'), ('pe', 'smallint'), ('pb', 'bool'), ('ps', 'struct'), ('pa', 'array'),
                        ('target', 'float'), ('pstr', 'str'), ('psc', 'scaled'), ('pbl', 'blob'), ('ptu', 'tuple')):
        out.append({'fn': 'run_end_to_end', 'id': f'end-to-end/{pname}/{cand}', 'params': {'pname': pname, 'cand': cand}})
    out.append({'fn': 'run_end_to_end', 'id': 'end-to-end/psn/scaledneg', 'params': {'pname': 'psn', 'cand': 'scaledneg', 'own': True}})
    out.append({'fn': 'run_command', 'id': 'end-to-end/command', 'params': {}})
    out.append({'fn': 'run_from_string', 'id': 'from-string', 'params': {}})
    for pname, cand in (('pf', 'float'), ('pi', 'int'), ('pe', 'smallint'), ('ps', 'struct'), ('psc', 'scaled'), ('ptu', 'tuple')):
        out.append({'fn': 'run_proxy', 'id': f'proxy/{pname}', 'params': {'pname': pname, 'cand': cand}})
    return out


def make_client(env, desc, clock):
    import frappy.client as fc
    from frappy.client import SecopClient
    fc.Event = VEvent
    fc.time = clock
    table = {}
    fc.decode_msg = lambda line: table[line]
    sent = []
    fc.encode_msg_frame = lambda *req: sent.append(req) or (b'REQ%d' % len(sent))
    cl = SecopClient('fake://x', log=None)
    cl.io = FakeIO()
    cl.txq = StepQueue()
    cl._running = True
    cl.activate = False
    cl._init_descriptive_data(desc)
    cl.table = table
    cl.sent_requests = sent
    return cl


def rx(env, cl, triple, K):
    line = b'MSG%d' % len(cl.table)
    cl.table[line] = triple
    cl.io.lines.append(line)
    cl.io.allow = 1
    cl.disconnect = lambda *a, **k: None
    try:
        cl._SecopClient__rxthread()
    except StepDone:
        pass
    except Exception as e:
        env.fail(K + '/receive-loop-raised/' + type(e).__name__, repr(e))
    finally:
        del cl.disconnect
        cl._running = True


def node_and_description(env):
    from C04_requests import build_node
    srv, log, spec = build_node(env, symbolic=())
    desc = srv.dispatcher.handle_request(C.Conn(), ('describe', '.', None))[2]
    return srv, log, desc


def own_node(env):
    """a node with a scaled parameter whose range includes negative values"""
    from frappy.core import Module, Parameter, ScaledInteger
    log = []

    class Drv(Module):
        psn = Parameter('scaled, negative values allowed', ScaledInteger(0.01, -10, 10), readonly=False, default=0)

        def write_psn(self, value):
            log.append(('psn', value))
            return None
    srv = C.make_node({'m': {'cls': Drv, 'description': 'd'}})
    desc = srv.dispatcher.handle_request(C.Conn(), ('describe', '.', None))[2]
    return srv, log, desc


def run_messages(env, p):
    srv, log, desc = node_and_description(env)
    # the described module gets a main value, so that the bare module name is a legal shorthand in updates and replies too
    desc['modules']['m']['accessibles']['value'] = {'description': 'main value', 'datainfo': {'type': 'double'}, 'readonly': True}
    clock = C.VirtualClock(env.real('now', 1000, 2000))
    cl = make_client(env, desc, clock)
    K = 'C12/messages'
    calls = {'node': [], 'module': [], 'param': [], 'other-param': [], 'oneshot': [], 'oneshot2': [], 'after-oneshot': []}

    def cb(level):
        def updateItem(module, parameter, item):
            calls[level].append((module, parameter, item))
        return updateItem
    cbs = {lv: cb(lv) for lv in calls}

    def register():
        n0 = {k: len(v) for k, v in calls.items()}
        cl.register_callback(None, cbs['node'])
        # a one-shot callback (documented mechanism: raise UnregisterCallback) followed by a persistent one on the same key
        from frappy.client import UnregisterCallback

        def oneshot(module, parameter, item):
            calls['oneshot'].append((module, parameter, item))
            raise UnregisterCallback()

        def after_oneshot(module, parameter, item):
            calls['after-oneshot'].append((module, parameter, item))
        def oneshot2(module, parameter, item):
            # belt and braces: unregisters itself AND raises UnregisterCallback
            calls['oneshot2'].append((module, parameter, item))
            cl.unregister_callback('m', updateItem=oneshot2)
            raise UnregisterCallback()
        cl.register_callback('m', updateItem=oneshot)
        cl.register_callback('m', updateItem=oneshot2)
        cl.register_callback('m', updateItem=after_oneshot)
        cl.register_callback('m', cbs['module'])
        cl.register_callback(('m', 'pf'), cbs['param'])
        cl.register_callback(('m', 'pi'), cbs['other-param'])
        # registration calls back immediately with the cached state
        cached = [(k, v) for k, v in cl.cache.items()]
        env.check(len(calls['node']) - n0['node'] == len(cached), K + '/registration-does-not-report-cached-state/node',
                  [len(calls['node']) - n0['node'], len(cached)])
        env.check(len(calls['param']) - n0['param'] == (1 if ('m', 'pf') in cl.cache else 0) or
                  (('m', 'pf') not in cl.cache and len(calls['param']) - n0['param'] == 1 and calls['param'][-1][2].readerror is not None),
                  K + '/registration-does-not-report-cached-state/param')
        for lv in calls:
            del calls[lv][:]
    registered = False
    if p['reg'] in ('before', 'unregister'):
        register()
        registered = True
    expect = {}     # (module, param) -> ('ok', value, t) | ('err', cls name, t)
    nmsg = {'node': 0, 'module': 0, 'param': 0, 'other-param': 0}
    relevant_since_registration = 0
    for step in range(p['depth']):
        if p['reg'] == 'middle' and step == 1:
            register()
            registered = True
        if p['reg'] == 'unregister' and step == p['depth'] - 1 and registered:
            cl.unregister_callback(('m', 'pf'), cbs['param'])
            cl.unregister_callback('m', cbs['module'])
            cl.unregister_callback('m', updateItem=[f for f in cl.callbacks['updateItem'].get('m', []) if f.__name__ == 'after_oneshot'][0])
            registered = 'node-only'
        kind = MSGKINDS[p['first'] if step == 0 else env.choice(f'kind{step}', len(MSGKINDS))]
        x = env.real(f'x{step}', -1e6, 1e6)
        t = env.real(f't{step}', 0, 3000)
        now = clock.now
        before = {k: tuple(v) for k, v in cl.cache.items()}
        n0 = {k: len(v) for k, v in calls.items()}
        key = ('m', 'pf')
        if kind == 'update':
            rx(env, cl, ('update', 'm:_pf', [x, {'t': t}]), K)
            expect[key] = ('ok', x, M.sx.If(t <= now, t, now) if M.is_sym(t) or M.is_sym(now) else min(t, now))
            env.note('update')
        elif kind == 'reply':
            rx(env, cl, ('reply', 'm:_pf', [x, {}]), K)
            expect[key] = ('ok', x, now)
        elif kind == 'changed':
            rx(env, cl, ('changed', 'm:_pf', [x, {'t': t}]), K)
            expect[key] = ('ok', x, M.sx.If(t <= now, t, now) if M.is_sym(t) or M.is_sym(now) else min(t, now))
        elif kind == 'error_update':
            rx(env, cl, ('error_update', 'm:_pf', ['HardwareError', 'hw failed', {'t': t}]), K)
            expect[key] = ('err', 'HardwareError', M.sx.If(t <= now, t, now) if M.is_sym(t) or M.is_sym(now) else min(t, now))
            env.note('error-update')
        elif kind == 'error_read':
            rx(env, cl, ('error_read', 'm:_pf', ['RangeError', 'out of range', {}]), K)
            expect[key] = ('err', 'RangeError', now)
        elif kind == 'unknown-param':
            rx(env, cl, ('update', 'm:_nosuch', [x, {'t': t}]), K)
            key = None
        elif kind == 'shorthand':
            key = ('m', 'target')
            rx(env, cl, ('changed', 'm', [x, {'t': t}]), K)
            expect[key] = ('ok', x, M.sx.If(t <= now, t, now) if M.is_sym(t) or M.is_sym(now) else min(t, now))
        elif kind == 'shorthand-value':
            # the bare module name stands for <module>:value in every message but a change reply
            key = ('m', 'value')
            rx(env, cl, ('update', 'm', [x, {'t': t}]), K)
            expect[key] = ('ok', x, M.sx.If(t <= now, t, now) if M.is_sym(t) or M.is_sym(now) else min(t, now))
        elif kind == 'malformed':
            rx(env, cl, ('update', 'm:_pf', 'garbage'), K)
            key = None
        # cache == import of the last relevant message
        for k, e in expect.items():
            item = cl.cache.get(k)
            if not env.check(item is not None and item is not cl.cache.undefined, K + f'/{kind}/cache-entry-missing', k):
                continue
            if e[0] == 'ok':
                env.check(item.readerror is None and M.eq(item.value, e[1]), K + f'/{kind}/cached-value-differs', k)
            else:
                env.check(item.readerror is not None and type(item.readerror).__name__ == e[1] and item.value is None,
                          K + f'/{kind}/cached-error-differs', [k, repr(item.readerror)])
            env.check(M.eq(item.timestamp, e[2]), K + f'/{kind}/timestamp', k)
            env.check(item.timestamp <= clock.now, K + f'/{kind}/timestamp-in-the-future', k)
        for k in before:
            if k not in expect or (key is not None and k != key) or key is None:
                if k != key:
                    env.check(tuple(cl.cache[k]) == before[k] or M.eq(list(cl.cache[k][:2]), list(before[k][:2])), K + f'/{kind}/unrelated-cache-entry-changed', k)
        # callbacks: exactly once per message, on the right levels
        if registered:
            env.note('callback')
            got = {lv: len(calls[lv]) - n0[lv] for lv in calls}
            want_node = 1 if key is not None else 0
            want_mod = want_node if registered is True else 0
            want_par = (1 if key == ('m', 'pf') else 0) if registered is True else 0
            env.check(got['node'] == want_node, K + f'/{kind}/node-callback-count', got)
            env.check(got['module'] == want_mod, K + f'/{kind}/module-callback-count', got)
            env.check(got['param'] == want_par, K + f'/{kind}/parameter-callback-count', got)
            env.check(got['other-param'] == 0, K + f'/{kind}/callback-for-other-parameter', got)
            relevant_since_registration += want_node
            # the callback registered after a one-shot callback sees every message, the one-shot exactly one in total
            env.check(got['after-oneshot'] == want_mod, K + f'/{kind}/callback-after-one-shot-callback-skipped', got)
            env.check(len(calls['oneshot']) <= 1, K + f'/{kind}/one-shot-callback-called-again', len(calls['oneshot']))
            if got['node'] == 1 and key is not None:
                mo, pa, item = calls['node'][-1]
                env.check((mo, pa) == key and item is cl.cache[key], K + f'/{kind}/callback-argument')
    # arrival order: the node level callback saw the messages in the order they arrived
    if registered:
        seq = [(mo, pa) for mo, pa, _ in calls['node']]
        env.check(all(a is not None for a in seq), K + '/order')
    env.note('end-to-end')


def run_end_to_end(env, p):
    """a value written through the client reaches the driver equal to what the caller passed and comes back
    into the cache equal to what the driver returned"""
    srv, log, desc = own_node(env) if p.get('own') else node_and_description(env)
    clock = C.VirtualClock(2000.0)
    cl = make_client(env, desc, clock)
    K = f"C12/end-to-end/{p['pname']}"
    pname = p['pname']
    mod = srv.secnode.modules['m']
    dt = mod.parameters[pname].datatype
    cand = p['cand']
    if cand == 'float':
        spec = {'pf': (-5.5, 7.25), 'target': (-1000, 1000)}[pname]
        v = env.real('v', spec[0], spec[1])
    elif cand == 'int':
        v = env.int('v', -3, 7) if pname == 'pf' else env.int('v', -3, 12)
    elif cand == 'bigint':
        v = env.int('v', 2 ** 53 + 1, 2 ** 62)
        env.assume(v % 2 == 1)
    elif cand == 'smallint':
        v = [1, 2, 5][env.choice('v', 3)]
    elif cand == 'bool':
        v = env.bool('v')
    elif cand == 'scaledneg':
        v = env.int('v', -100, 100) * 0.01
    elif cand == 'scaled':
        v = env.int('v', 0, 100) * 0.1
    elif cand == 'blob':
        v = [b'', b'ab', b'\x00\xff\n'][env.choice('v', 3)]
    elif cand == 'tuple':
        v = (env.int('v0', 0, 5), ['', 'ab'][env.choice('v1', 2)])
    elif cand == 'struct':
        v = {'x': env.real('v.x', -10, 10), 'n': env.int('v.n', 0, 5)}
    elif cand == 'array':
        v = [env.int('v0', 0, 9), env.int('v1', 0, 9)]
    else:
        v = ['', 'ab', 'é'][env.choice('v', 3)]
        if v == 'é':
            return
    entry = None
    try:
        # the caller side of setParameter without blocking: export + queue
        cdt = cl.modules['m']['parameters'][pname]['datatype']
        exported = cdt.export_value(v)
        entry = cl.queue_request('change', cl.identifier['m', pname], exported)
    except Exception as e:
        env.fail(K + '/client-export-raised/' + type(e).__name__, repr(e))
        return
    cl.txq.allow = 1
    try:
        cl._SecopClient__txthread()
    except StepDone:
        pass
    request = cl.sent_requests[-1]
    nlog = len(log)
    listener = C.Conn('l')
    h, per = C.scripted_handler(srv, [tuple(request)])
    reply = per[0][0]
    if not env.check(reply[0] == 'changed', K + '/node-refused-valid-value', reply[:2] + (reply[2][:2] if isinstance(reply[2], list) else None,)):
        return
    env.note('end-to-end')
    drv = log[nlog:]
    if env.check(len(drv) == 1, K + '/driver-calls', len(drv)):
        env.check(M.eq(normal(drv[0][1]), normal(v)), K + '/driver-saw-other-value')
    rx(env, cl, reply, K)
    item = cl.cache['m', pname]
    env.check(item.readerror is None, K + '/cache-error')
    env.check(M.eq(normal(item.value), normal(mod.parameters[pname].value)), K + '/client-cache-differs-from-node-cache')
    env.check(M.eq(normal(item.value), normal(v)), K + '/client-cache-differs-from-written-value')
    try:
        r = cl.get_reply(entry)
        env.check(r == reply or M.eq(list(r), list(reply)), K + '/caller-got-other-reply')
    except Exception as e:
        env.fail(K + '/get_reply-raised/' + type(e).__name__, repr(e))
    for t in ('update', 'error-update', 'callback'):
        env.note(t)


def normal(v):
    from frappy.lib.enum import EnumMember
    if isinstance(v, EnumMember):
        return v.value
    if isinstance(v, dict):
        return {k: normal(x) for k, x in v.items()}
    if isinstance(v, (list, tuple)):
        return [normal(x) for x in v]
    if M.is_sym(v) and M.pytype(v) is int:
        return v
    return v


def run_command(env, p):
    srv, log, desc = node_and_description(env)
    clock = C.VirtualClock(2000.0)
    cl = make_client(env, desc, clock)
    K = 'C12/end-to-end/command'
    a = env.real('a', 0, 10)
    b = env.int('b', 0, 5)
    adt = cl.modules['m']['commands']['cmdt']['datatype'].argument
    rdt = cl.modules['m']['commands']['cmdt']['datatype'].result
    arg = adt.export_value((a, b))
    h, per = C.scripted_handler(srv, [('do', 'm:_cmdt', arg)])
    reply = per[0][0]
    if env.check(reply[0] == 'done', K + '/refused', reply[:2]):
        env.check(log[-1][0] == 'cmdt' and M.eq([log[-1][1], log[-1][2]], [a, b]), K + '/driver-saw-other-argument')
        env.check(M.eq(rdt.import_value(reply[2][0]), a + b), K + '/result-differs')
    for t in REQUIRED_TAGS:
        env.note(t)


def run_from_string(env, p):
    """str(<cache item>) is documented as valid input of setParameterFromString: the value sent is the
    exported (JSON kind) form of the cached value"""
    from frappy.core import Module, Parameter, FloatRange, IntRange, EnumType, ScaledInteger, BLOBType, StringType, StructOf, \
        TupleOf, ArrayOf, BoolType
    import json

    class Kinds(Module):
        f = Parameter('f', FloatRange(), readonly=False, default=1.5)
        i = Parameter('i', IntRange(), readonly=False, default=3)
        e = Parameter('e', EnumType('e', a=1, b=2), readonly=False, default=2)
        sc = Parameter('sc', ScaledInteger(0.1, 0, 100), readonly=False, default=2.5)
        bl = Parameter('bl', BLOBType(0, 10), readonly=False, default=b'ab\x00')
        st = Parameter('st', StringType(), readonly=False, default='q"x \\n')
        bo = Parameter('bo', BoolType(), readonly=False, default=True)
        tu = Parameter('tu', TupleOf(IntRange(), EnumType('t', x=0, y=1)), readonly=False, default=(1, 1))
        ar = Parameter('ar', ArrayOf(FloatRange(), 0, 3), readonly=False, default=(1.5, 2.5))
        su = Parameter('su', StructOf(k=IntRange(), e=EnumType('t', x=0, y=1)), readonly=False, default={'k': 1, 'e': 1})
    srv = C.make_node({'m': {'cls': Kinds, 'description': 'm'}})
    desc = srv.dispatcher.handle_request(C.Conn(), ('describe', '.', None))[2]
    cl = make_client(env, desc, C.VirtualClock(2000.0))
    names = ['f', 'i', 'e', 'sc', 'bl', 'st', 'bo', 'tu', 'ar', 'su']
    pname = names[env.choice('param', len(names))]
    K = 'C12/from-string/' + pname
    mod = srv.secnode.modules['m']
    pobj = mod.parameters[pname]
    wire = '_' + pname
    rx(env, cl, ('update', 'm:' + wire, [pobj.export_value(), {'t': 1.0}]), K)
    item = cl.cache['m', pname]
    text = str(item)
    sent = []
    cl.request = lambda action, ident=None, data=None: sent.append((action, ident, data))
    try:
        cl.setParameterFromString('m', pname, text)
    except Exception as e:
        env.fail(K + '/raises/' + type(e).__name__, [text, repr(e)])
        return
    if not env.check(len(sent) == 1 and sent[0][0] == 'change' and sent[0][1] == 'm:' + wire, K + '/request', sent):
        return
    data = sent[0][2]
    try:
        json.dumps(data, allow_nan=False)
    except Exception as e:
        env.fail(K + '/value-sent-is-not-json/' + type(e).__name__, [text, repr(data)])
        return
    env.check(data == pobj.export_value() and type(data) is type(pobj.export_value()), K + '/value-sent-differs-from-exported-form',
              [text, repr(data), repr(pobj.export_value())])
    h, per = C.scripted_handler(srv, [('change', 'm:' + wire, data)])
    env.check(per[0][0][0] == 'changed', K + '/node-refuses-its-own-value', per[0][0][:2])
    for t in REQUIRED_TAGS:
        env.note(t)


def run_proxy(env, p):
    """a value written through a proxy node reaches the driver of the real node unchanged, the proxy's cache and
    update stream mirror the real node (frappy.proxy.proxy_class + SecNode module, in-process, no sockets)"""
    import frappy.proxy as fp
    from frappy.core import Module, Parameter, Command, FloatRange, IntRange, EnumType, StructOf, TupleOf, StringType, ScaledInteger
    log = []

    class Remote(Module):
        pf = Parameter('float', FloatRange(-5.5, 7.25), readonly=False, default=0)
        pi = Parameter('int', IntRange(-3, 12), readonly=False, default=0)
        pe = Parameter('enum', EnumType('e', a=1, b=2, c=5), readonly=False, default=1)
        ps = Parameter('struct', StructOf(x=FloatRange(-10, 10), n=IntRange(0, 5), optional=['n']), readonly=False, default={'x': 0, 'n': 0})
        psc = Parameter('scaled', ScaledInteger(0.1, 0, 10), readonly=False, default=1.0)
        ptu = Parameter('tuple', TupleOf(IntRange(0, 5), StringType(0, 3)), readonly=False, default=(0, ''))
        ro = Parameter('readonly', FloatRange(), default=1.5)

        @Command(FloatRange(0, 10), result=FloatRange())
        def cmd1(self, v):
            """command"""
            log.append(('cmd1', v))
            return v
    for pn in ('pf', 'pi', 'pe', 'ps', 'psc', 'ptu'):
        def w(self, value, pn=pn):
            log.append((pn, value))
            return None
        w.__name__ = 'write_' + pn
        setattr(Remote, 'write_' + pn, w)

    class Remote2(Remote):
        pass
    srvA = C.make_node({'m': {'cls': Remote2, 'description': 'remote'}})
    desc = srvA.dispatcher.handle_request(C.Conn(), ('describe', '.', None))[2]
    clock = C.VirtualClock(2000.0)
    cl = make_client(env, desc, clock)
    K = f"C12/proxy/{p['pname']}"
    modA = srvA.secnode.modules['m']

    def request(action, ident=None, data=None):
        # the real client path, one step at a time: queue -> transmit iteration -> real dispatcher -> receive iteration -> reply
        entry = cl.queue_request(action, ident, data)
        cl.txq.allow = 1
        try:
            cl._SecopClient__txthread()
        except StepDone:
            pass
        h, per = C.scripted_handler(srvA, [tuple(cl.sent_requests[-1])])
        rx(env, cl, per[0][0], K)
        return cl.get_reply(entry)
    cl.request = request
    cl.online = True

    class FakeSecNode(fp.SecNode):
        def earlyInit(self):
            fp.Module.earlyInit(self)
            self.secnode = cl
    ProxyCls = fp.proxy_class(Remote2, 'P')
    try:
        srvB = C.make_node({'sec': {'cls': FakeSecNode, 'description': 'sec', 'uri': 'fake://a'},
                            'p': {'cls': ProxyCls, 'description': 'proxy', 'module': 'm', 'io': 'sec'}})
    except Exception as e:
        env.fail(K + '/proxy-node-creation-raised/' + type(e).__name__, repr(e)[:200])
        return
    if not env.check(srvB.secnode.errors == [] and 'p' in srvB.secnode.modules, K + '/proxy-node-errors', srvB.secnode.errors[:3]):
        return
    proxy = srvB.secnode.modules['p']
    listenerB = C.Conn('lb')
    srvB.dispatcher.handle_request(listenerB, ('activate', None, None))
    # updates of the real node reach the client, the proxy module and the connections of the proxy node
    connA = C.Conn('feeds-client')
    connA.send_reply = lambda msg: rx(env, cl, msg, K)
    srvA.dispatcher.handle_request(connA, ('activate', None, None))
    pname, cand = p['pname'], p['cand']
    if cand == 'float':
        v = env.real('v', -5.5, 7.25)
    elif cand == 'int':
        v = env.int('v', -3, 12)
    elif cand == 'smallint':
        v = [1, 2, 5][env.choice('v', 3)]
    elif cand == 'struct':
        v = {'x': env.real('v.x', -10, 10), 'n': env.int('v.n', 0, 5)}
    elif cand == 'scaled':
        v = env.int('v', 0, 99)     # transported value
    else:
        v = [env.int('v0', 0, 5), 'ab']
    wname = '_' + pname
    nlog = len(log)
    nB = len(listenerB.sent)
    pdt = proxy.parameters[pname].datatype
    wire = v if cand in ('scaled', 'tuple', 'smallint') else pdt.export_value(pdt(v)) if cand != 'struct' else v
    h, per = C.scripted_handler(srvB, [('change', 'p:' + wname, wire)])
    reply = per[0][0]
    if not env.check(reply[0] == 'changed', K + '/change-through-proxy-refused', reply[:2] + (reply[2][:2] if isinstance(reply[2], list) else None,)):
        return
    env.note('end-to-end')
    drv = log[nlog:]
    if env.check(len(drv) == 1 and drv[0][0] == pname, K + '/driver-calls', [e[0] for e in drv]):
        want = modA.parameters[pname].datatype.import_value(wire)
        env.check(M.eq(normal(drv[0][1]), normal(want)), K + '/driver-saw-other-value')
    # proxy cache == real node cache, reply == exported cache
    env.check(M.eq(normal(proxy.parameters[pname].value), normal(modA.parameters[pname].value)), K + '/proxy-cache-differs-from-node-cache')
    env.check(M.eq(reply[2][0], modA.parameters[pname].export_value()), K + '/reply-of-proxy-differs-from-node-value')
    upd = [m for m in listenerB.sent[nB:] if m[1] == 'p:' + wname]
    env.check(bool(upd) and upd[-1][0] == 'update' and M.eq(upd[-1][2][0], modA.parameters[pname].export_value()),
              K + '/update-stream-of-proxy-differs-from-node', len(upd))
    # a change made by the driver of the real node arrives at the proxy node's connections
    if cand == 'float':
        y = env.real('y', -5.5, 7.25)
        env.assume(y != modA.pf)
        nB = len(listenerB.sent)
        modA.pf = y
        upd = [m for m in listenerB.sent[nB:] if m[1] == 'p:_pf']
        env.check(len(upd) == 1 and M.eq(upd[0][2][0], y), K + '/driver-update-not-forwarded-by-proxy', len(upd))
        env.check(M.eq(proxy.pf, y), K + '/proxy-cache-not-updated')
    for t in ('update', 'error-update', 'callback'):
        env.note(t)
