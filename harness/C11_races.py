"""C11 -- client: callers, transmit thread, receive thread and shutdown as real threads under symbolic schedules

The real SecopClient.__txthread and __rxthread bodies run as logical threads of
engine/cosched.py next to 2 caller threads (SecopClient.request) and, in some
scenarios, a thread calling disconnect().  queue.Queue, Event, RLock, mkthread
handles and the connection object are cooperative: put/get/set/wait/acquire/
release/send/readline/join are the synchronisation points, time-outs expire in
virtual time when no thread can run.  The peer is scripted inside the fake
connection (replies become readable when the request was sent)."""
import common as C

PROPERTY = 'C11'
FUNCTIONS = ['frappy.client.SecopClient.{__txthread,__rxthread,queue_request,get_reply,request,disconnect} as 4-5 concurrent threads']
ASSUMPTIONS = ['schedules: every interleaving of 2 callers + transmit + receive (+ shutdown) threads at synchronisation points (queue put/get, event '
               'set/wait, lock acquire/release, connection send/readline, thread join) with at most 2 (quick) / 3 (thorough) delays of a deterministic round-robin scheduler (delay bounding); '
               'pre-emption between two byte codes without a synchronisation point in between is outside the bound',
               'peer scripts: answers every request / error reply to the first / an update before each reply / never answers the first / closes after '
               'the first request; request mixes: equal keys, distinct keys, read+change of one parameter',
               'virtual time: a blocked thread with a time-out is woken (earliest deadline first) only when no thread can run']
REQUIRED_TAGS = ['race/preempted', 'race/reply', 'race/released', 'race/timeout']
LIMITS = {'quick': {'max_paths': 60000, 'max_s': 240}, 'thorough': {'max_paths': 600000, 'max_s': 1200}}

MIXES = {'single': [('read', 'm:a', None)], 'same': [('read', 'm:a', None), ('read', 'm:a', None)], 'distinct': [('read', 'm:a', None), ('read', 'm:b', None)],
         'rw': [('change', 'm:a', 1.5), ('read', 'm:a', None)]}
PEERS = ['normal', 'error0', 'update', 'silent0', 'drop', 'send-fails']
CLOSERS = ['after', 'race']


def cases(tier):
    out = []
    pre = 3 if tier == 'thorough' else 2
    for mix in MIXES:
        for peer in PEERS:
            for closer in CLOSERS:
                out.append({'fn': 'run_race', 'id': f'race/{mix}/{peer}/close-{closer}',
                            'params': {'mix': mix, 'peer': peer, 'closer': closer, 'preempt': pre}})
    # nobody connected yet: both callers run into connect() at once
    for mix in ('distinct', 'same'):
        out.append({'fn': 'run_race', 'id': f'race/{mix}/normal/fresh-connect', 'params': {'mix': mix, 'peer': 'normal', 'closer': 'after',
                                                                                       'preempt': pre, 'fresh': True}})
    # the peer goes away in the middle of the connect handshake (after the identification, instead of the description)
    out.append({'fn': 'run_race', 'id': 'race/single/drop-in-handshake/close-after',
                'params': {'mix': 'single', 'peer': 'drop-in-handshake', 'closer': 'after', 'preempt': pre, 'fresh': True}})
    return out


def run_race(env, p):
    import cosched
    import frappy.client as fc
    saved = {k: getattr(fc, k) for k in ('Event', 'RLock', 'queue', 'mkthread', 'current_thread', 'time', 'AsynConn')}
    try:
        _run_race(env, p, cosched, fc)
    finally:
        for k, v in saved.items():
            setattr(fc, k, v)


def _run_race(env, p, cosched, fc):
    from frappy.protocol.interface import encode_msg_frame, decode_msg
    from frappy.protocol.messages import REQUEST2REPLY
    from frappy.lib.asynconn import ConnectionClosed
    from frappy.errors import SECoPError
    from frappy.datatypes import FloatRange
    s = cosched.Sched(env, max_preempt=p['preempt'], max_steps=3000, bound='delay')

    class Clock:
        def time(self):
            return 1000.0 + s.now

        def __getattr__(self, name):
            import time
            return getattr(time, name)

    connections = []

    def no_connect(*a, **k):
        if p.get('fresh'):
            cosched.yield_point('connect')
            c = PeerIO()
            connections.append(c)
            return c
        raise ConnectionRefusedError('no peer')

    fc.Event, fc.RLock, fc.queue = cosched.CoEvent, cosched.CoRLock, cosched.CoQueueModule()
    fc.current_thread, fc.time, fc.AsynConn = cosched.current_thread, Clock(), no_connect
    fc.mkthread = lambda fn, *a, **k: cosched.ThreadHandle(s.spawn('w%d-%s' % (len(s.threads), getattr(fn, '__name__', 'conn').strip('_')), fn, *a))
    reqs = MIXES[p['mix']]
    K = 'C11/race'

    class PeerIO:
        def __init__(self):
            self.sent = []
            self.lines = []
            self.closed = False
            self.nreq = 0

        def send(self, line):
            cosched.yield_point('send')
            if self.closed:
                raise BrokenPipeError('connection lost')
            if p['peer'] == 'send-fails' and not self.sent and not getattr(self, 'failed_once', False):
                self.failed_once = True
                raise TimeoutError('send timed out')     # e.g. socket.timeout of sendall: the line is not transmitted
            self.sent.append(line)
            action, ident, data = decode_msg(line.strip())
            if action == 'describe' and p['peer'] == 'drop-in-handshake':
                self.closed = True
                return
            if action == 'describe':
                acc = {k: {'description': k, 'datainfo': {'type': 'double'}, 'readonly': False} for k in ('a', 'b')}
                self.lines.append(encode_msg_frame('describing', '.', {'equipment_id': 'eq', 'description': 'd', 'modules': {
                    'm': {'description': 'm', 'interface_classes': [], 'accessibles': acc}}}))
                return
            self.nreq += 1
            n = self.nreq
            if action == 'ping':
                self.lines.append(encode_msg_frame('pong', ident, [None, {'t': 1.0}]))
                return
            if p['peer'] == 'drop' and n == 1:
                self.closed = True
                return
            if p['peer'] == 'silent0' and n == 1:
                return
            if p['peer'] == 'update':
                self.lines.append(encode_msg_frame('update', 'm:a', [100.0 + n, {'t': 1.0}]))
            if p['peer'] == 'error0' and n == 1:
                self.lines.append(encode_msg_frame('error_' + action, ident, ['RangeError', f'req{n}', {}]))
                return
            value = data if action == 'change' else float(n)
            self.lines.append(encode_msg_frame(REQUEST2REPLY[action], ident, [value, {'t': 1.0, 'n': n}]))

        def __bool__(self):
            cosched.yield_point('io-test')       # 'if self.io:' is a place where another thread may set self.io = None
            return True

        def writeline(self, line):
            cosched.yield_point('send')
            self.lines.append(b'ISSE&SINE2020,SECoP,V2019-09-16,v1.0\n')

        def readline(self, timeout=None):
            cosched.yield_point('readline')
            while not self.lines:
                if self.closed:
                    raise ConnectionClosed()
                if not s.block(lambda: bool(self.lines) or self.closed, 'readline', timeout=1.0):
                    return None
            return self.lines.pop(0).rstrip(b'\n')

        def shutdown(self):
            self.closed = True

        def disconnect(self):
            self.closed = True

    cl = fc.SecopClient('fake://x', log=None)
    cl.activate = False
    if p.get('fresh'):
        io = None
    else:
        io = cl.io = PeerIO()
        cl._running = True
        cl.online = True
        cl.modules = {'m': {'parameters': {'a': {'datatype': FloatRange()}, 'b': {'datatype': FloatRange()}}}}
        cl.internal = {'m:a': ('m', 'a'), 'm:b': ('m', 'b')}
        cl.identifier = {('m', 'a'): 'm:a', ('m', 'b'): 'm:b'}
    unhandled = []
    errors = []
    cl.register_callback(None, unhandledMessage=lambda a, i, d: unhandled.append((a, i, d)) or True,
                         handleError=lambda e: errors.append(e))
    outcome = {}
    finished = {}

    late = {}

    def caller(i):
        def run():
            try:
                entry = cl.queue_request(*reqs[i])
                late[i] = bool(closed.get('started'))    # the request was queued while a shutdown was under way
                outcome[i] = ('reply', cl.get_reply(entry))
            except SECoPError as e:
                outcome[i] = ('secop-error', type(e).__name__, str(e))
            except TimeoutError as e:
                outcome[i] = ('timeout', str(e))
            except ConnectionError as e:
                outcome[i] = ('connection-error', str(e))
            finished[i] = s.now
        return run

    closed = {}

    def closer():
        if p['closer'] == 'after':
            s.block(lambda: len(finished) == len(reqs), 'callers-done')
        closed['started'] = True
        try:
            cl.disconnect()
            closed['ok'] = True
        except Exception as e:
            closed['raised'] = e
        closed['at'] = s.now

    if not p.get('fresh'):
        lt_tx = s.spawn('tx', cl._SecopClient__txthread)
        lt_rx = s.spawn('rx', cl._SecopClient__rxthread)
        cl._txthread = cosched.ThreadHandle(lt_tx)
        cl._rxthread = cosched.ThreadHandle(lt_rx)
    for i in range(len(reqs)):
        s.spawn(f'c{i}', caller(i))
    s.spawn('closer', closer)
    s.run()
    env.log('schedule', [x[0] + ':' + x[1] for x in s.trace][:60])
    env.check(s.deadlock is None, K + '/deadlock', s.deadlock)
    if s.preempts:
        env.note('race/preempted')
    for t in s.threads:
        if t.exc is not None:
            if 'tx' in t.name and isinstance(t.exc, OSError):
                continue     # the transmit thread dies with the connection; the receive thread notices and disconnects
            env.fail(K + f'/{t.name}-thread-raised/' + type(t.exc).__name__, repr(t.exc))
    # the shutdown itself completes without raising and leaves no worker thread running
    env.check('raised' not in closed, K + '/shutdown-raised/' + type(closed.get('raised')).__name__, repr(closed.get('raised')))
    env.check(all(t.state == 'done' for t in s.threads), K + '/thread-still-running', [(t.name, t.state) for t in s.threads])
    env.check(len(outcome) == len(reqs), K + '/caller-without-outcome', sorted(outcome))
    quiet = p['closer'] == 'after'
    if p.get('fresh'):
        if p['peer'] != 'drop-in-handshake':     # (every caller of a client whose connection was lost connects again)
            env.check(len(connections) == 1, K + '/more-than-one-connection-opened-for-one-client', len(connections))
        io = connections[0] if connections else PeerIO()
    replies = []
    for i, o in sorted(outcome.items()):
        rq = reqs[i]
        waited = finished[i]
        # nobody waits longer than the time-out
        env.check(waited <= 10.0 + 3.0, K + '/caller-waited-longer-than-its-time-out', [i, waited])
        if o[0] == 'reply':
            env.note('race/reply')
            r = o[1]
            env.check(r[0] == REQUEST2REPLY[rq[0]] and r[1] == rq[1], K + '/reply-of-another-request', [rq, r])
            replies.append(r[2][1].get('n'))
        elif o[0] == 'secop-error':
            env.check(p['peer'] == 'error0' and o[1] == 'RangeError', K + '/unexpected-error-reply', [rq, o])
        elif o[0] == 'timeout':
            env.note('race/timeout')
            # a time-out is legitimate only if the peer never answered this request (or the one it was parked behind)
            if late.get(i):
                env.check(False, K + '/request-queued-during-shutdown-released-by-time-out-only', [i, rq, o])
            else:
                env.check(p['peer'] not in ('drop', 'send-fails'), K + '/waiting-caller-released-by-time-out-only-after-connection-loss', [i, rq, o])
                env.check(p['peer'] in ('silent0', 'drop', 'send-fails'), K + '/caller-timed-out-although-peer-answered', [i, rq, o, [x for x in io.sent]])
        else:
            env.note('race/released')
            env.check(not quiet or p['peer'] in ('drop', 'drop-in-handshake', 'send-fails'), K + '/connection-error-without-connection-loss', [i, o])
            # released promptly: not by the 10 s time-out
            env.check(waited < 10.0, K + '/waiting-caller-not-released-promptly', [i, waited])
    # no reply is handed to two callers
    env.check(len(set(replies)) == len(replies), K + '/one-reply-handed-to-two-callers', replies)
    if quiet and p['peer'] in ('normal', 'update', 'error0'):
        env.check(all(o[0] in ('reply', 'secop-error') for o in outcome.values()), K + '/caller-not-answered-although-peer-answered',
                  sorted(outcome.items()))
    env.check(cl.io is None and cl._txthread is None and cl._rxthread is None, K + '/worker-state-after-shutdown',
              [cl.io is None, cl._txthread is None, cl._rxthread is None])
