"""C06 -- the node's self-description is true of its behaviour"""
import dtmodel as M
import common as C
from C04_requests import build_node, PAYLOAD_ERRORS

PROPERTY = 'C06'
FUNCTIONS = ['frappy.secnode.SecNode.{get_descriptive_data,export_accessibles}', 'frappy.params.{Parameter,Command}.for_export',
             'frappy.properties.HasProperties.exportProperties', 'frappy.modulebase.Module.__init__ (implementation/interface_classes/features)',
             'frappy.datatypes.get_datatype', 'frappy.protocol.dispatcher.Dispatcher.{handle_describe,handle_change,handle_read,handle_do,handle_activate}']
ASSUMPTIONS = ['node catalogue: the C04 fake-driver node (one class with parameters of all kinds, unexported module) with symbolic float/int limits, '
               'plus interface-class variants Readable/Writable/Drivable/Communicator/feature mixin',
               'the description is handed to get_datatype as python objects when it contains symbolic limits; its JSON text is checked on the '
               'concrete witness model of every path (replay on the unmodified tree)']
REQUIRED_TAGS = ['accept-agree', 'reject-agree']
ACCEPTED_FLAGS = {'hash-of-nonintegral-real': 'see C01'}
LIMITS = {'quick': {'max_paths': 3000, 'max_s': 100, 'witnesses': 2}, 'thorough': {'max_paths': 40000, 'max_s': 600, 'witnesses': 8}}

# wire name -> attribute, payload kinds to probe
PROBE_PARAMS = {
    '_pf': ('pf', ['float', 'int', 'bool', 'str12', 'none', 'list1']),
    '_pi': ('pi', ['int', 'float', 'bool', 'str12']),
    '_pe': ('pe', ['smallint', "lit:'b'", "lit:'zz'", 'float']),
    '_pb': ('pb', ['bool', 'smallint', 'strab']),
    '_pstr': ('pstr', ["lit:''", "lit:'abc'", "lit:'abcd'", "lit:'\\xe9'", 'int']),
    '_ps': ('ps', [['dict', {'x': 'float', 'n': 'int'}], ['dict', {'x': 'float'}], ['dict', {'n': 'int'}], ['dict', {}],
                   ['dict', {'x': 'float', 'zz': 'int'}], 'strab']),
    '_ps2': ('ps2', [['dict', {'x': 'float', 'n': 'int'}], ['dict', {'x': 'float'}], ['dict', {}]]),
    '_pa': ('pa', [['list', []], ['list', ['int']], ['list', ['int', 'int', 'int', 'int']], ['list', ['float']], 'strab']),
    '_psc': ('psc', ['int', 'float', 'str12']),
    '_pbl': ('pbl', ["lit:'YWI='", "lit:'YW I='", "lit:'YWJjZGU='", 'int']),
    '_ptu': ('ptu', [['list', ['int', "lit:'ab'"]], ['list', ['int']], ['list', ['int', "lit:'abcd'"]], 'strab']),
    '_other': ('cust', ['float', 'strab']),
    '_nowrite': ('nowrite', ['float', 'int']),
}


CMD_PROBES = {
    '_cmd0': ['none', 'float'],
    '_cmdt': [['list', ['float', 'int']], ['list', ['float']], ['list', ['float', 'int', 'int']], 'none', 'strab'],
    '_cmds': [['dict', {'x': 'float', 'n': 'int'}], ['dict', {'x': 'float'}], ['dict', {}], ['dict', {'x': 'float', 'zz': 'int'}]],
    '_cmds2': [['dict', {'x': 'float', 'n': 'int'}], ['dict', {'x': 'float'}], ['dict', {'n': 'int'}], ['dict', {}]],
    '_cmd1': ['float', 'int', 'str12', 'none'],
}


def cases(tier):
    out = [{'fn': 'run_structure', 'id': 'structure', 'params': {}}]
    for wname, (attr, kinds) in PROBE_PARAMS.items():
        for i, k in enumerate(kinds):
            out.append({'fn': 'run_probe', 'id': f'probe/{wname}/{i}', 'params': {'wname': wname, 'attr': attr, 'cand': k}})
    for cname, kinds in CMD_PROBES.items():
        for i, k in enumerate(kinds):
            out.append({'fn': 'run_cmd_probe', 'id': f'cmd-probe/{cname}/{i}', 'params': {'wname': cname, 'cand': k}})
    out.append({'fn': 'run_constant', 'id': 'constant', 'params': {}})
    for kind in ('export-true-on-hidden', 'export-name-on-hidden', 'readonly-false-without-write-method', 'readonly-true-on-writable',
                 'export-in-unexported-module', 'scaled-constant', 'float-constant-in-subclass'):
        out.append({'fn': 'run_cfg_overrides', 'id': f'cfg-overrides/{kind}', 'params': {'kind': kind}})
    for cfgname in ('demo_cfg.py', 'sim_cfg.py', 'test_cfg.py', 'cryo_cfg.py'):
        out.append({'fn': 'run_shipped', 'id': f'shipped/{cfgname}', 'params': {'cfg': cfgname}})
    for attr, wname in (('pf', '_pf'), ('cmd0', '_cmd0'), ('target', 'target')):
        out.append({'fn': 'run_cfg_unexported', 'id': f'cfg-unexported/{attr}', 'params': {'attr': attr, 'wname': wname}})
    for v in ('readable', 'writable', 'drivable', 'communicator', 'feature', 'plain', 'feature-last', 'feature-both'):
        out.append({'fn': 'run_classes', 'id': f'classes/{v}', 'params': {'variant': v}})
    for name in ('hidden', '_hidden', 'cust', '_cust', 'pf', 'zz', '_cmd0', '_hiddencmd'):
        out.append({'fn': 'run_undescribed', 'id': f'undescribed/m:{name}', 'params': {'mod': 'm', 'name': name}})
    for name in ('_pf', 'value', ''):
        out.append({'fn': 'run_undescribed', 'id': f'undescribed/hid:{name}', 'params': {'mod': 'hid', 'name': name}})
    return out


def json_kinds_only(x):
    t = M.pytype(x)
    if t in (int, float, bool, str, type(None)):
        return not (t is float and not M.is_sym(x) and x != x)
    if t is list or t is tuple:
        return t is list and all(json_kinds_only(i) for i in x)
    if isinstance(x, dict):
        return all(type(k) is str and json_kinds_only(v) for k, v in x.items())
    return False


def run_structure(env, p):
    srv, log, spec = build_node(env)
    node = srv.secnode
    c = C.Conn()
    r1 = srv.dispatcher.handle_request(c, ('describe', '.', None))
    r2 = srv.dispatcher.handle_request(c, ('describe', '.', None))
    K = 'C06/structure'
    env.check(r1[0] == 'describing' and r1[1] == '.', K + '/reply')
    d1, d2 = r1[2], r2[2]
    env.check(M.eq(d1, d2), K + '/not-stable-between-calls')
    env.check(json_kinds_only(jsonable_view(d1)), K + '/not-json-kinds')
    env.check(list(d1['modules']) == ['m'], K + '/module-list', list(d1['modules']))
    mod = node.modules['m']
    want = [a.export for a in mod.accessibles.values() if a.export]
    env.check(list(d1['modules']['m']['accessibles']) == want, K + '/accessible-list')
    env.check(all(isinstance(n, str) and (n.startswith('_') or n in PREDEF) for n in want), K + '/wire-name-rule', want)
    for hiddenname in ('hidden', '_hidden', 'hiddencmd', '_hiddencmd'):
        env.check(hiddenname not in d1['modules']['m']['accessibles'], K + '/unexported-listed', hiddenname)
    for wname, acc in d1['modules']['m']['accessibles'].items():
        attr = mod.accessiblename2attr[wname]
        aobj = mod.accessibles[attr]
        env.check('datainfo' in acc and 'description' in acc, K + '/mandatory-accessible-property', wname)
        if attr in mod.parameters:
            env.check(acc.get('readonly') == aobj.readonly, K + '/readonly-flag', wname)
            if aobj.constant is not None:
                env.check('constant' in acc, K + '/constant-not-described', wname)
    env.note('accept-agree')
    env.note('reject-agree')
    if env.mode == 'replay':
        import json
        try:
            text = json.dumps(d1, allow_nan=False)
            env.check(json.loads(text) == d1, K + '/json-text-roundtrip')
        except Exception as e:
            env.fail(K + '/not-strict-json/' + type(e).__name__, repr(e))


PREDEF = ('value', 'status', 'target', 'pollinterval', 'stop', 'target_min', 'target_max', 'target_limits')


def jsonable_view(x):
    """tuples produced by export code would be lists in JSON: flag them (kept as tuple)"""
    return x


def run_probe(env, p):
    """described datainfo accepts a payload iff the node does; emitted values are importable"""
    from frappy.datatypes import get_datatype
    from frappy.errors import BadValueError
    srv, log, spec = build_node(env, symbolic=[p['attr']])
    c = C.Conn()
    listener = C.Conn('l')
    srv.dispatcher.handle_request(listener, ('activate', None, None))
    desc = srv.dispatcher.handle_request(c, ('describe', '.', None))[2]
    acc = desc['modules']['m']['accessibles'][p['wname']]
    K = f"C06/{p['wname']}"
    try:
        cdt = get_datatype(acc['datainfo'], p['attr'])
    except Exception as e:
        env.fail(K + '/datainfo-not-rebuildable/' + type(e).__name__, repr(e))
        return
    cand = M.make(env, p['cand'], 'v', box={'f': 8, 'i': 8} if p['attr'] in ('pe', 'pb') else {'f': 200, 'i': 200} if p['attr'] == 'psc' else {'f': 2000, 'i': 2000})
    try:
        cval = cdt.validate(cdt.import_value(cand.value))
        client_ok = True
    except BadValueError:
        client_ok = False
    except Exception as e:
        env.fail(K + '/client-datatype-raises/' + type(e).__name__, repr(e))
        return
    nupd = len(listener.sent)
    h, per = C.scripted_handler(srv, [('change', 'm:' + p['wname'], cand.value)])
    reply = per[0][0]
    node_ok = reply[0] == 'changed'
    if not node_ok:
        env.check(reply[0] == 'error_change', K + '/reply')
        bad_payload = reply[2][0] in PAYLOAD_ERRORS
        env.check(bad_payload, K + '/refused-for-other-reason', reply[2][0])
    env.check(client_ok == node_ok, K + '/described-datainfo-and-node-disagree', [client_ok, node_ok])
    env.note('accept-agree' if node_ok else 'reject-agree')
    if node_ok:
        emitted = [reply[2][0]] + [m[2][0] for m in listener.sent[nupd:] if m[0] == 'update' and m[1] == 'm:' + p['wname']]
        env.check(len(emitted) >= 2, K + '/no-update-for-accepted-change')
        for e in emitted:
            try:
                back = cdt.validate(cdt.import_value(e))
            except Exception as ex:
                env.fail(K + '/emitted-value-not-importable/' + type(ex).__name__, repr(ex))
                return
            env.check(covers(back, cval), K + '/emitted-value-differs-from-accepted')


def run_cmd_probe(env, p):
    """the described argument datainfo accepts a payload iff the node executes the command;
    the result is importable with the described result datainfo"""
    from frappy.datatypes import get_datatype
    from frappy.errors import BadValueError
    srv, log, spec = build_node(env, symbolic=())
    desc = srv.dispatcher.handle_request(C.Conn(), ('describe', '.', None))[2]
    acc = desc['modules']['m']['accessibles'][p['wname']]
    K = f"C06/{p['wname']}"
    try:
        cdt = get_datatype(acc['datainfo'], p['wname'])
    except Exception as e:
        env.fail(K + '/datainfo-not-rebuildable/' + type(e).__name__, repr(e))
        return
    cand = M.make(env, p['cand'], 'v', box={'f': 2000, 'i': 2000})
    if cdt.argument is None:
        client_ok = cand.value is None
    elif cand.value is None:
        client_ok = False
    else:
        try:
            cdt.argument.validate(cdt.argument.import_value(cand.value))
            client_ok = True
        except BadValueError:
            client_ok = False
        except Exception as e:
            env.fail(K + '/client-datatype-raises/' + type(e).__name__, repr(e))
            return
    h, per = C.scripted_handler(srv, [('do', 'm:' + p['wname'], cand.value)])
    reply = per[0][0]
    node_ok = reply[0] == 'done'
    if not node_ok:
        env.check(reply[0] == 'error_do' and reply[2][0] in PAYLOAD_ERRORS, K + '/refused-for-other-reason', reply[2][0])
    env.check(client_ok == node_ok, K + '/described-argument-and-node-disagree', [client_ok, node_ok])
    env.note('accept-agree' if node_ok else 'reject-agree')
    if node_ok and cdt.result is not None:
        try:
            cdt.result.validate(cdt.result.import_value(reply[2][0]))
        except Exception as ex:
            env.fail(K + '/result-not-importable/' + type(ex).__name__, repr(ex))


def run_constant(env, p):
    """a constant parameter reads as exactly the described constant and refuses changes"""
    from frappy.datatypes import get_datatype
    srv, log, spec = build_node(env, symbolic=())
    desc = srv.dispatcher.handle_request(C.Conn(), ('describe', '.', None))[2]
    acc = desc['modules']['m']['accessibles']['_pc']
    K = 'C06/constant'
    env.check(acc.get('constant') == 2.5 and acc.get('readonly') is True, K + '/description', acc.get('constant'))
    h, per = C.scripted_handler(srv, [('read', 'm:_pc', None), ('change', 'm:_pc', 1.0)])
    rd, ch = per[0][0], per[1][0]
    ok = rd[0] == 'reply' and isinstance(rd[2], list) and len(rd[2]) == 2
    env.check(ok, K + '/read-of-constant-fails', rd[:2] + (rd[2][:2] if isinstance(rd[2], list) else rd[2],))
    if ok:
        cdt = get_datatype(acc['datainfo'])
        env.check(cdt.import_value(rd[2][0]) == cdt.import_value(acc['constant']), K + '/read-differs-from-described-constant', rd[2][0])
    env.check(ch[0] == 'error_change' and ch[2][0] == 'ReadOnly', K + '/change-of-constant-not-refused', ch[:2])
    env.note('accept-agree')
    env.note('reject-agree')


def run_cfg_unexported(env, p):
    """an accessible switched off in the configuration (export=False) is neither described nor reachable"""
    from C04_requests import build_node as bn
    import C04_requests
    # same node, but the configuration hides one accessible
    orig = C.make_node

    def make_node(cfg, **kw):
        cfg = {k: dict(v) for k, v in cfg.items()}
        cfg['m'][p['attr']] = {'export': False}
        return orig(cfg, **kw)
    C.make_node = make_node
    try:
        srv, log, spec = bn(env, symbolic=())
    finally:
        C.make_node = orig
    K = f"C06/cfg-unexported/{p['attr']}"
    desc = srv.dispatcher.handle_request(C.Conn(), ('describe', '.', None))[2]
    env.check(p['wname'] not in desc['modules']['m']['accessibles'], K + '/still-described')
    spec_ = 'm:' + p['wname']
    is_cmd = p['attr'] == 'cmd0'
    reqs = [('do', spec_, None)] if is_cmd else [('read', spec_, None), ('change', spec_, 1.0), ('activate', spec_, None)]
    h, per = C.scripted_handler(srv, reqs)
    for rq, rep in zip(reqs, per):
        env.check(rep[-1][0] == 'error_' + rq[0], K + f'/{rq[0]}-not-refused', [r[0] for r in rep])
    env.check(log == [], K + '/driver-reached', [e[0] for e in log])
    env.note('accept-agree')
    env.note('reject-agree')


def run_cfg_overrides(env, p):
    """flags and names changed by the configuration: what is described is honoured, what is not described is not reachable"""
    from frappy.core import Module, Parameter, FloatRange, ScaledInteger
    from frappy.datatypes import get_datatype
    kind = p['kind']
    K = 'C06/cfg-overrides/' + kind
    log = []

    class Drv(Module):
        hid = Parameter('hidden in the class', FloatRange(), readonly=False, default=1.5, export=False)
        ro = Parameter('readonly without write method', FloatRange(), default=1.5)
        rw = Parameter('writable', FloatRange(), readonly=False, default=1.5)
        sc = Parameter('scaled constant', ScaledInteger(0.1, 0, 100), constant=1.5)
        fc = Parameter('float constant', FloatRange(), constant=2.5)

        def write_rw(self, value):
            log.append(('rw', value))
            return value

        def write_hid(self, value):
            log.append(('hid', value))
            return value

    class Sub(Drv):
        pass
    cfg = {'cls': Sub if kind == 'float-constant-in-subclass' else Drv, 'description': 'm'}
    ucfg = {'cls': Drv, 'description': 'u', 'export': False}
    if kind == 'export-true-on-hidden':
        cfg['hid'] = {'export': True}
    elif kind == 'export-name-on-hidden':
        cfg['hid'] = {'export': '_shown'}
    elif kind == 'readonly-false-without-write-method':
        cfg['ro'] = {'readonly': False}
    elif kind == 'readonly-true-on-writable':
        cfg['rw'] = {'readonly': True}
    elif kind == 'export-in-unexported-module':
        ucfg['rw'] = {'export': 'w'}
    try:
        srv = C.make_node({'m': cfg, 'u': ucfg})
    except Exception as e:
        env.note('accept-agree'), env.note('reject-agree')
        env.log('configuration refused', repr(e)[:100])
        return      # a configuration refused as a whole is C10's subject
    if srv.secnode.errors:
        env.note('accept-agree'), env.note('reject-agree')
        return
    desc = srv.dispatcher.handle_request(C.Conn(), ('describe', '.', None))[2]
    env.check(list(desc['modules']) == ['m'], K + '/module-list', list(desc['modules']))
    acc = desc['modules']['m']['accessibles']
    x = env.real('x', -100, 100)
    # everything described is honoured
    for wname, entry in acc.items():
        h, per = C.scripted_handler(srv, [('read', 'm:' + wname, None), ('change', 'm:' + wname, x)])
        rd, ch = per[0][-1], per[1][-1]
        if env.check(rd[0] == 'reply', K + '/described-parameter-not-readable', [wname, rd[:2], rd[2][:2] if rd[0].startswith('error') else None]):
            try:
                dt = get_datatype(entry['datainfo'])
                v = dt.import_value(rd[2][0])
                dt.validate(v)
            except Exception as e:
                env.fail(K + '/emitted-value-not-importable-with-described-datainfo', [wname, rd[2][0], repr(e)[:80]])
            if 'constant' in entry:
                env.check(M.eq(rd[2][0], entry['constant']), K + '/constant-reads-differently', [wname, rd[2][0], entry['constant']])
                want = {'_sc': 15, '_fc': 2.5}.get(wname)
                if want is not None:
                    env.check(entry['constant'] == want, K + '/described-constant-is-not-the-constant', [wname, entry['constant'], want])
        refused = ch[0] == 'error_change'
        if entry.get('readonly') or 'constant' in entry:
            env.check(refused and ch[2][0] == 'ReadOnly', K + '/change-of-readonly-not-refused', [wname, ch[:2]])
            env.note('reject-agree')
        else:
            # described as changeable: refused only for reasons the description shows (the value)
            env.check(not refused or ch[2][0] in ('RangeError', 'WrongType'), K + '/change-of-writable-refused-for-other-reason',
                      [wname, ch[2][:2] if refused else None])
            env.note('accept-agree')
    # nothing undescribed is reachable: class level names of hidden parameters, names in the unexported module
    for spec in ('m:hid', 'm:_hid', 'm:_shown', 'u:w', 'u:_rw', 'u:rw', 'u:_w'):
        if spec.startswith('m:') and spec[2:] in acc:
            continue
        n0 = len(log)
        h, per = C.scripted_handler(srv, [('read', spec, None), ('change', spec, 1.0), ('activate', spec, None)])
        for rq, rep in zip(('read', 'change', 'activate'), per):
            env.check(rep[-1][0] == 'error_' + rq and rep[-1][2][0] in ('NoSuchModule', 'NoSuchParameter'), K + f'/undescribed-name-reachable/{rq}',
                      [spec, rep[-1][:2]])
        env.check(len(log) == n0, K + '/driver-reached-through-undescribed-name', spec)


def covers(full, given):
    """emitted value equals the accepted one (a partial struct is merged into the current value)"""
    if isinstance(given, dict) and isinstance(full, dict):
        return set(given) <= set(full) and M.And(*[M.eq(full[k], given[k]) for k in given]) if given else True
    return M.eq(full, given)


def run_classes(env, p):
    from frappy.core import Readable, Writable, Drivable, Communicator, Module, Parameter, FloatRange
    from frappy.modulebase import Feature
    v = p['variant']

    class HasOffset(Feature):
        offset = Parameter('offs', FloatRange(), default=0)

    class HasWindow(Feature):
        window = Parameter('win', FloatRange(), default=0)

    base = {'readable': (Readable,), 'writable': (Writable,), 'drivable': (Drivable,), 'communicator': (Communicator,),
            'feature': (HasOffset, Drivable), 'plain': (Module,),
            # the feature mixin listed after the interface class, and features on both sides of it
            'feature-last': (Drivable, HasOffset), 'feature-both': (HasWindow, Writable, HasOffset)}[v]

    class X(*base):
        pass

    class Y(X):   # one more level: the highest *SECoP* class must still be reported
        pass
    srv = C.make_node({'y': {'cls': Y, 'description': 'y'}})
    d = srv.dispatcher.handle_request(C.Conn(), ('describe', '.', None))[2]['modules']['y']
    K = 'C06/classes/' + v
    want_iface = {'readable': ['Readable'], 'writable': ['Writable'], 'drivable': ['Drivable'], 'communicator': ['Communicator'],
                  'feature': ['Drivable'], 'plain': [], 'feature-last': ['Drivable'], 'feature-both': ['Writable']}[v]
    env.check(list(d.get('interface_classes', [])) == want_iface, K + '/interface_classes', d.get('interface_classes'))
    want_features = {'feature': ['HasOffset'], 'feature-last': ['HasOffset'], 'feature-both': ['HasOffset', 'HasWindow']}.get(v, [])
    env.check(sorted(d.get('features', [])) == want_features, K + '/features', d.get('features'))
    for f in want_features:
        # what a feature promises is described as well
        env.check({'HasOffset': '_offset', 'HasWindow': '_window'}[f] in d['accessibles'], K + '/feature-accessible-not-described', f)
    env.check(d.get('implementation', '').endswith('.Y'), K + '/implementation', d.get('implementation'))
    env.note('accept-agree')
    env.note('reject-agree')


def run_undescribed(env, p):
    """nothing that is not described can be read, changed, executed or subscribed"""
    srv, log, spec = build_node(env, symbolic=())
    spec_ = f"{p['mod']}:{p['name']}" if p['name'] else p['mod']
    desc = srv.dispatcher.handle_request(C.Conn(), ('describe', '.', None))[2]
    described = p['mod'] in desc['modules'] and p['name'] in desc['modules'][p['mod']]['accessibles']
    K = f'C06/undescribed/{spec_}'
    if p['name'] != '_cmd0':
        env.check(not described, K + '/is-described')
    listener = C.Conn('l')
    reqs = [('read', spec_, None), ('change', spec_, 1.0), ('do', spec_ if ':' in spec_ else spec_ + ':stop', None), ('activate', spec_, None)]
    if p['name'] == '_cmd0':
        reqs = [r for r in reqs if r[0] in ('read', 'change')]
    h, per = C.scripted_handler(srv, reqs)
    for rq, rep in zip(reqs, per):
        is_param = p['mod'] == 'm' and p['name'] in ('_pf',)
        if rq[0] in ('do', 'activate') and p['mod'] == 'm' and p['name'] == '_cmd0':
            continue   # described as a command; activation of a command name: see C08
        env.check(len(rep) >= 1 and rep[-1][0] == 'error_' + rq[0], K + f'/{rq[0]}-not-refused', [r[0] for r in rep])
        if rep and rep[-1][0].startswith('error_'):
            env.check(rep[-1][2][0] in ('NoSuchModule', 'NoSuchParameter', 'NoSuchCommand'), K + f'/{rq[0]}-error-class', rep[-1][2][0])
    env.check(log == [], K + '/driver-reached', [e[0] for e in log])
    env.note('accept-agree')
    env.note('reject-agree')


def run_shipped(env, p):
    """the shipped demo / simulation configurations (concrete): description strict, stable, true of the cache"""
    import importlib
    import json
    import os
    from pathlib import Path
    from frappy.config import process_file
    from frappy.datatypes import get_datatype
    import frappy
    K = 'C06/shipped/' + p['cfg']
    repo = os.path.dirname(os.path.dirname(os.path.abspath(frappy.__file__)))
    real = os.environ.get('FRAPPY_REPO', '/repo')
    cfgfile = Path(real) / 'cfg' / p['cfg']

    class T:
        def join(self, *a):
            pass

        def is_alive(self):
            return False
    for modname in ('frappy.lib', 'frappy.modulebase', 'frappy_demo.modules', 'frappy.simulation', 'frappy_demo.cryo'):
        try:
            m = importlib.import_module(modname)
            if hasattr(m, 'mkthread'):
                m.mkthread = lambda *a, **k: T()
        except Exception:
            pass
    try:
        cfg = process_file(cfgfile, C.LOG)
        cfg.pop('node')
        srv = C.make_node(dict(cfg))
    except Exception as e:
        env.fail(K + '/not-loadable/' + type(e).__name__, repr(e)[:200])
        return
    env.check(srv.secnode.errors == [], K + '/configuration-errors', srv.secnode.errors[:3])
    conn = C.Conn()
    d1 = srv.dispatcher.handle_request(conn, ('describe', '.', None))[2]
    d2 = srv.dispatcher.handle_request(conn, ('describe', '.', None))[2]
    try:
        t1 = json.dumps(d1, allow_nan=False, sort_keys=True)
        env.check(t1 == json.dumps(d2, allow_nan=False, sort_keys=True), K + '/not-stable-between-calls')
        env.check(json.loads(t1) == json.loads(json.dumps(d1)), K + '/json-roundtrip')
    except Exception as e:
        env.fail(K + '/not-strict-json/' + type(e).__name__, repr(e)[:200])
        return
    exported = [n for n, m in srv.secnode.modules.items() if m.export]
    env.check(list(d1['modules']) == exported, K + '/module-list', [list(d1['modules']), exported])
    srv.dispatcher.handle_request(conn, ('activate', None, None))
    updates = {m[1]: m for m in conn.sent if m[0] in ('update', 'error_update')}
    for mn, md in d1['modules'].items():
        mod = srv.secnode.modules[mn]
        want = [a.export for a in mod.accessibles.values() if a.export]
        env.check(list(md['accessibles']) == want, K + '/accessible-list', mn)
        for an, acc in md['accessibles'].items():
            try:
                dt = get_datatype(acc['datainfo'], an)
            except Exception as e:
                env.fail(K + '/datainfo-not-rebuildable/' + type(e).__name__, [mn, an, repr(e)[:100]])
                continue
            if dt.IS_COMMAND:
                continue
            attr = mod.accessiblename2attr[an]
            env.check(acc.get('readonly') == mod.parameters[attr].readonly, K + '/readonly-flag', [mn, an])
            upd = updates.get(f'{mn}:{an}')
            if env.check(upd is not None, K + '/no-snapshot-update-for-described-parameter', [mn, an]) and upd[0] == 'update':
                try:
                    json.dumps(upd[2], allow_nan=False)
                    dt.validate(dt.import_value(upd[2][0]))
                except Exception as e:
                    env.fail(K + '/emitted-value-not-importable/' + type(e).__name__, [mn, an, repr(upd[2][0])[:60], repr(e)[:100]])
            if acc.get('readonly'):
                h, per = C.scripted_handler(srv, [('change', f'{mn}:{an}', upd[2][0] if upd and upd[0] == 'update' else 0)])
                env.check(per[0][0][0] == 'error_change' and per[0][0][2][0] == 'ReadOnly', K + '/readonly-parameter-changeable', [mn, an, per[0][0][:2]])
    env.check(all(':' in k and k.split(':')[0] in exported for k in updates), K + '/update-for-undescribed-module')
    env.note('accept-agree')
    env.note('reject-agree')
