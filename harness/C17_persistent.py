"""C17 -- persistent parameters: crash-atomic, exact round trip, retried after failure

real PersistentMixin over an in-memory file system injected into
frappy.persistent's namespace; the failing file-system operation is chosen by a
symbolic selector, parameter values are symbolic."""
import copy

import dtmodel as M
import common as C

PROPERTY = 'C17'
FUNCTIONS = ['frappy.persistent.PersistentMixin.{__init__,loadPersistentData,loadParameters,saveParameters,__save_params,factory_reset}',
             'frappy.modulebase.Module.{announceUpdate,writeInitParams}']
ASSUMPTIONS = ['file system model: open/write/close/rename/remove/mkdir are the operations; rename is atomic and moves the inode the open file object keeps writing to; written data is durable at once '
               '(write-through) or only when the file is closed (buffered) - a symbolic selector; durable writes keep their order; a crash stops the process at the chosen operation (nothing after it takes effect), an error raises OSError there',
               'json.dump is modelled as two writes of a structure preserving token, json.load returns the structure or raises '
               'ValueError for an incomplete file (text level truncation is checked concretely with the real json module)',
               'persistent parameters: float, int (symbolic values), enum, string, struct (catalogue values); history of <= 2 changes',
               'fsync / page cache effects and real disk errors are outside the claim']
REQUIRED_TAGS = ['crashed', 'errored', 'clean', 'corrupt-tolerated']
ACCEPTED_FLAGS = {'hash-of-nonintegral-real': 'see C01'}
LIMITS = {'quick': {'max_paths': 20000, 'max_s': 150}, 'thorough': {'max_paths': 200000, 'max_s': 900}}


class Crash(BaseException):
    pass


class FakePath:
    def __init__(self, fs, p):
        self.fs = fs
        self.p = p.rstrip('/') or '/'

    def __truediv__(self, other):
        return FakePath(self.fs, self.p + '/' + str(other))

    @property
    def parent(self):
        return FakePath(self.fs, self.p.rsplit('/', 1)[0] or '/')

    @property
    def name(self):
        return self.p.rsplit('/', 1)[1]

    def is_dir(self):
        return self.p in self.fs.dirs

    def mkdir(self, parents=False, exist_ok=False):
        self.fs.op('mkdir')
        self.fs.dirs.add(self.p)

    def __fspath__(self):
        return self.p

    def __str__(self):
        return self.p

    def __eq__(self, other):
        return str(self) == str(other)

    def __hash__(self):
        return hash(self.p)


class FakeFile:
    """a file object refers to the inode it opened (a rename moves the inode, later writes still go there);
    in the buffered model written data reaches the inode only when the file is closed"""
    def __init__(self, fs, path, mode):
        self.fs, self.path, self.mode = fs, path, mode
        self.inode = fs.files[path]
        self.buf = []
        self.closed = False

    def write(self, chunk):
        if self.fs.op('write'):
            (self.buf if self.fs.buffered else self.inode).append(chunk)

    def chunks(self):
        return list(self.inode)

    def close(self):
        if not self.closed:
            self.closed = True
            if self.fs.op('close'):      # flush: a crash or an I/O error here loses what is still buffered
                self.inode.extend(self.buf)
            self.buf = []

    def __enter__(self):
        return self

    def __exit__(self, *exc):
        self.close()
        return False


class FS:
    def __init__(self):
        self.files = {}
        self.dirs = {'/log'}
        self.armed = False
        self.n = 0
        self.fail_at = None
        self.mode = None
        self.dead = False
        self.oplog = []
        self.buffered = False

    def op(self, name):
        """returns True if the operation takes effect"""
        if self.dead:
            return False
        if self.armed:
            i = self.n
            self.n += 1
            self.oplog.append(name)
            if i == self.fail_at:
                if self.mode == 'crash':
                    self.dead = True
                    raise Crash()
                raise OSError(28, 'injected failure at ' + name)
        return True

    # --- functions patched into frappy.persistent
    def open(self, path, mode='r', encoding=None):
        path = str(path)
        if 'w' in mode:
            if self.op('open'):
                self.files[path] = []
            elif path not in self.files:
                self.files[path] = []
            return FakeFile(self, path, mode)
        if path not in self.files:
            raise FileNotFoundError(path)
        return FakeFile(self, path, mode)

    def rename(self, a, b):
        a, b = str(a), str(b)
        if self.op('rename'):
            if a not in self.files:
                raise FileNotFoundError(a)
            self.files[b] = self.files.pop(a)

    def remove(self, a):
        a = str(a)
        if self.op('remove'):
            if a not in self.files:
                raise FileNotFoundError(a)
            del self.files[a]

    def makedirs(self, p, exist_ok=False):
        self.dirs.add(str(p))


class FakeOs:
    def __init__(self, fs):
        self.rename, self.remove, self.makedirs = fs.rename, fs.remove, fs.makedirs


class FakeJson:
    @staticmethod
    def dump(obj, f, indent=None):
        snap = copy.copy(obj)
        f.write(('J1', snap))
        f.write(('J2', snap))

    @staticmethod
    def load(f):
        ch = f.chunks()
        if len(ch) == 1 and isinstance(ch[0], tuple) and ch[0][0] == 'RAW':
            if ch[0][1] == '__invalid_json__':
                raise ValueError('invalid json')
            return copy.deepcopy(ch[0][1])
        if len(ch) == 3 and ch[0][0] == 'J1' and ch[1][0] == 'J2' and ch[2] == '\n':
            return dict(ch[0][1])
        raise ValueError('truncated')


def file_snapshot(fs, path):
    """the complete snapshot stored in <path>, 'MISSING', or 'PARTIAL'"""
    if path not in fs.files:
        return 'MISSING'
    ch = fs.files[path]
    if len(ch) == 3 and ch[0][0] == 'J1' and ch[1][0] == 'J2' and ch[2] == '\n':
        return dict(ch[0][1])
    if len(ch) == 1 and ch[0][0] == 'RAW':
        return ch[0][1]
    return 'PARTIAL'


def setup(env, fs):
    from frappy.lib import generalConfig
    import frappy.persistent as pm
    pm.open = fs.open
    pm.os = FakeOs(fs)
    pm.json = FakeJson
    C.init_config(logdir=FakePath(fs, '/log'))


def make_module(fs, cfg=None, reinit=True, with_limit=False):
    from frappy.core import Parameter, FloatRange, IntRange, EnumType, StringType, StructOf
    from frappy.persistent import PersistentMixin, PersistentParam, PersistentLimit
    from frappy.secnode import SecNode
    from frappy.protocol.dispatcher import Dispatcher
    wlog = []

    class Mod(PersistentMixin):
        p1 = PersistentParam('float', FloatRange(0, 100), readonly=False, default=1.5, persistent='auto')
        p2 = PersistentParam('int', IntRange(-10, 10), readonly=False, default=2, persistent='auto')
        p3 = PersistentParam('enum', EnumType('e', a=1, b=2), readonly=False, default=1, persistent='auto')
        p4 = PersistentParam('string', StringType(), readonly=False, default='dflt', persistent='auto')
        p5 = PersistentParam('struct', StructOf(x=FloatRange(), n=IntRange()), readonly=False, default={'x': 0, 'n': 0},
                             persistent='auto')
        p6 = PersistentParam('readonly persistent (no write method at all)', FloatRange(0, 100), default=0.5, persistent='auto')
        q = Parameter('not persistent', FloatRange(), readonly=False, default=0)
        if with_limit:
            p1_max = PersistentLimit()       # a limit parameter that is to be kept as well

        def write_p1(self, value):
            wlog.append(('p1', value))
            return value

    srv = C.FakeServer({'m': dict({'cls': Mod, 'description': 'm'}, **(cfg or {}))})
    import frappy.secnode as _sn
    _sn.get_version = lambda *a, **k: 'verif'
    srv.secnode = SecNode('node', C.LOG, {'equipment_id': 'eq'}, srv)
    srv.secnode.add_secnode_property('description', 'd')
    srv.dispatcher = Dispatcher('disp', C.LOG, {}, srv)
    srv.secnode.create_modules()
    mod = srv.secnode.get_module('m')
    if mod is None:
        raise RuntimeError('module not created: %r' % (srv.secnode.errors,))
    return srv, mod, wlog


TARGET = '/log/persistent/eq.m.json'
TMP = TARGET + '.tmp'


def snapshot_of(mod):
    return {k: v.export_value() for k, v in mod.parameters.items() if getattr(v, 'persistent', False)}


def cases(tier):
    out = []
    for mode in ('crash', 'error'):
        for nchanges in (1, 2):
            for which in ('p1', 'p2', 'p4'):
                out.append({'fn': 'run_fault', 'id': f'{mode}/changes{nchanges}/{which}', 'params': {'mode': mode, 'n': nchanges, 'which': which}})
        out.append({'fn': 'run_fault_initial', 'id': f'{mode}/initial-save', 'params': {'mode': mode}})
    out.append({'fn': 'run_roundtrip', 'id': 'roundtrip', 'params': {}})
    out.append({'fn': 'run_precedence', 'id': 'precedence', 'params': {}})
    out.append({'fn': 'run_persistent_limit', 'id': 'persistent-limit', 'params': {}})
    for i in range(len(CORRUPT)):
        out.append({'fn': 'run_corrupt', 'id': f'corrupt/{i}', 'params': {'i': i}})
    out.append({'fn': 'run_text_truncation', 'id': 'text-truncation', 'params': {}})
    return out


def run_fault(env, p):
    """a crash or an I/O error at any operation of a save"""
    fs = FS()
    fs.buffered = bool(env.choice('buffered', 2))     # write-through or data reaching the disk at close only
    setup(env, fs)
    srv, mod, wlog = make_module(fs)
    mod.writeInitParams()
    K = 'C17/' + p['mode']
    env.check(file_snapshot(fs, TARGET) != 'PARTIAL' and file_snapshot(fs, TARGET) != 'MISSING', K + '/no-file-after-startup',
              file_snapshot(fs, TARGET) if isinstance(file_snapshot(fs, TARGET), str) else None)
    values = []
    for i in range(p['n']):
        if p['which'] == 'p1':
            v = env.real(f'v{i}', 0, 100)
        elif p['which'] == 'p2':
            v = env.int(f'v{i}', -10, 10)
        else:
            v = ['abc', 'q"\\\n', ''][env.choice(f'v{i}', 3)]
        values.append(v)
    for v in values[:-1]:
        setattr(mod, p['which'], v)
    prev = file_snapshot(fs, TARGET)
    env.check(M.eq(prev, snapshot_of(mod)), K + '/file-not-current-before-fault')
    # arm the fault for the last change
    fs.armed, fs.n, fs.mode = True, 0, p['mode']
    fs.fail_at = env.choice('failop', 9)   # 8 = no failure
    try:
        setattr(mod, p['which'], values[-1])
    except Crash:
        pass
    except Exception as e:
        env.fail(K + '/save-error-escaped-assignment/' + type(e).__name__, repr(e))
        return
    fs.armed = False
    failed = fs.fail_at < fs.n
    new = snapshot_of(mod)
    now = file_snapshot(fs, TARGET)
    # crash atomicity (holds for errors as well): previous or new complete snapshot, never partial/missing
    if not env.check(not isinstance(now, str), K + '/target-file-' + str(now).lower() if isinstance(now, str) else K + '/x', fs.oplog):
        return
    env.check(M.Or(M.eq(now, prev), M.eq(now, new)), K + '/target-neither-old-nor-new-snapshot', fs.oplog)
    if not failed:
        env.note('clean')
        env.check(M.eq(now, new), K + '/save-without-fault-did-not-store', fs.oplog)
        return
    if p['mode'] == 'crash':
        env.note('crashed')
        # reboot from the file system
        fs.dead = False
        srv2, mod2, _ = make_module(fs)
        got = snapshot_of(mod2)
        env.check(M.Or(M.eq(got, prev), M.eq(got, new)), K + '/restart-restores-neither-old-nor-new')
        return
    env.note('errored')
    # a failed save is attempted again by the next save
    try:
        mod.saveParameters()
    except Exception as e:
        env.fail(K + '/retry-raised/' + type(e).__name__, repr(e))
        return
    env.check(M.eq(file_snapshot(fs, TARGET), new), K + '/failed-save-not-retried', fs.oplog)
    env.check(TMP not in fs.files, K + '/temporary-file-left')


def run_fault_initial(env, p):
    """fault during the very first save (module creation)"""
    fs = FS()
    fs.buffered = bool(env.choice('buffered', 2))     # write-through or data reaching the disk at close only
    setup(env, fs)
    fs.armed, fs.n, fs.mode = True, 0, p['mode']
    fs.fail_at = env.choice('failop', 9)
    K = 'C17/initial-' + p['mode']
    try:
        srv, mod, wlog = make_module(fs)
    except Crash:
        mod = None
    except Exception as e:
        if p['mode'] == 'error':
            env.note('errored')
            mod = None
        else:
            env.fail(K + '/raised/' + type(e).__name__, repr(e))
            return
    fs.armed = False
    now = file_snapshot(fs, TARGET)
    env.check(now != 'PARTIAL', K + '/partial-target-file', fs.oplog)
    fs.dead = False
    try:
        srv2, mod2, _ = make_module(fs)
    except Exception as e:
        env.fail(K + '/restart-prevented/' + type(e).__name__, repr(e))
        return
    env.check(mod2.p1 == 1.5 and mod2.p2 == 2 and mod2.p4 == 'dflt', K + '/defaults-not-applied')
    env.check(not isinstance(file_snapshot(fs, TARGET), str), K + '/no-complete-file-after-restart', file_snapshot(fs, TARGET))
    env.note('crashed' if p['mode'] == 'crash' else 'errored')
    env.note('clean')


def run_roundtrip(env, p):
    """loading after saving restores every persistent parameter to an equal value"""
    fs = FS()
    setup(env, fs)
    srv, mod, wlog = make_module(fs)
    mod.writeInitParams()
    K = 'C17/roundtrip'
    mod.p1 = env.real('p1', 0, 100)
    mod.p2 = env.int('p2', -10, 10)
    mod.p3 = [1, 2][env.choice('p3', 2)]
    mod.p4 = ['', 'é€😀', 'q"\\\n'][env.choice('p4', 3)]
    mod.p5 = {'x': env.real('x', -1e6, 1e6), 'n': env.int('n', -1000, 1000)}
    mod.q = 5.0
    want = {n: mod.parameters[n].value for n in ('p1', 'p2', 'p3', 'p4', 'p5')}
    srv2, mod2, wlog2 = make_module(fs)
    for n, v in want.items():
        env.check(M.eq(mod2.parameters[n].value, v), K + '/value-differs-after-reload/' + n)
    env.check(mod2.q == 0, K + '/non-persistent-parameter-restored')
    # restored values of parameters with a write method are handed to the hardware once
    mod2.writeInitParams()
    env.check(len(wlog2) == 1 and M.eq(wlog2[0][1], want['p1']), K + '/restored-value-not-written-to-hw-once', len(wlog2))
    # loadParameters (power cycle) restores as well
    mod.p1 = 0.0
    fs.files[TARGET] = [('RAW', {'p1': 7.5, 'p2': 3})]
    mod.loadParameters()
    env.check(mod.p1 == 7.5 and mod.p2 == 3, K + '/loadParameters')
    for t in REQUIRED_TAGS:
        env.note(t)


def run_precedence(env, p):
    """configuration > stored value > default"""
    fs = FS()
    setup(env, fs)
    K = 'C17/precedence'
    stored1 = env.real('s1', 0, 100)
    stored2 = env.int('s2', -10, 10)
    cfgv = env.real('c1', 0, 100)
    fs.files[TARGET] = [('RAW', {'p1': stored1, 'p2': stored2})]
    from frappy.config import Param
    which = env.choice('configured', 4)     # p1 has a write method, p2 / p4 only the generated wrapper, p6 none at all
    if which == 0:
        srv, mod, wlog = make_module(fs, cfg={'p1': {'value': cfgv}})
        env.check(mod.p1 == cfgv, K + '/configured-value-overridden-by-file')
        env.check(mod.p2 == stored2, K + '/stored-value-not-restored')
    elif which == 1:
        cfg2 = env.int('c2', -10, 10)
        srv, mod, wlog = make_module(fs, cfg={'p2': {'value': cfg2}})
        env.check(mod.p2 == cfg2, K + '/configured-value-overridden-by-file/no-write-method')
        env.check(mod.p1 == stored1, K + '/stored-value-not-restored')
    elif which == 3:
        fs.files[TARGET] = [('RAW', {'p1': stored1, 'p2': stored2, 'p6': stored1})]
        srv, mod, wlog = make_module(fs, cfg={'p6': {'value': cfgv}})
        env.check(mod.p6 == cfgv, K + '/configured-value-overridden-by-file/no-write-method')
        env.check(mod.p2 == stored2, K + '/stored-value-not-restored')
    else:
        fs.files[TARGET] = [('RAW', {'p1': stored1, 'p2': stored2, 'p4': 'stored'})]
        srv, mod, wlog = make_module(fs, cfg={'p4': {'value': 'configured'}})
        env.check(mod.p4 == 'configured', K + '/configured-value-overridden-by-file/no-write-method')
        env.check(mod.p2 == stored2, K + '/stored-value-not-restored')
    if which != 2:
        env.check(mod.p4 == 'dflt', K + '/default-not-applied')
    for t in REQUIRED_TAGS:
        env.note(t)


CORRUPT = [
    '__invalid_json__', [1, 2], 5, None, 'text', {'p1': 'str', 'p2': 3}, {'p1': 7.5, 'p2': 2.5}, {'p1': None, 'p2': 3},
    {'zz': 1, 'p2': 3}, {'q': 9.0, 'p2': 3}, {'p2': 3, 'p3': 7}, {'p2': 3, 'p5': {'x': 1.0}}, {'p2': 3, 'p5': [1, 2]},
    {'p2': 3, 'p1': 250.0}, {'p2': 300, 'p1': 7.5}, {'p1': [1], 'p2': {'a': 1}, 'p4': 5}, {},
]


def run_corrupt(env, p):
    """a corrupt or outdated file never prevents start-up; unusable entries are ignored one by one"""
    fs = FS()
    setup(env, fs)
    content = CORRUPT[p['i']]
    fs.files[TARGET] = [('RAW', content)]
    K = f"C17/corrupt/{p['i']}"
    try:
        srv, mod, wlog = make_module(fs)
    except Exception as e:
        env.fail(K + '/startup-prevented/' + type(e).__name__, repr(e))
        return
    env.note('corrupt-tolerated')
    defaults = {'p1': 1.5, 'p2': 2, 'p3': 1, 'p4': 'dflt', 'p5': {'x': 0, 'n': 0}, 'p6': 0.5}
    good = {}
    if isinstance(content, dict):
        for n, v in content.items():
            if n in defaults:
                dt = mod.parameters[n].datatype
                try:
                    good[n] = dt(dt.validate(dt.import_value(v)))   # complete and inside the limits
                except Exception:
                    pass
    for n, dflt in defaults.items():
        want = good.get(n, mod.parameters[n].datatype(dflt))
        env.check(M.eq(mod.parameters[n].value, want), K + '/entry-not-restored-or-bad-entry-used/' + n,
                  [repr(mod.parameters[n].value), repr(want)])
    env.check(mod.q == 0, K + '/non-persistent-parameter-restored')
    for t in ('crashed', 'errored', 'clean'):
        env.note(t)


def run_text_truncation(env, p):
    """truncation at every byte of a real JSON file (concrete, real json module)"""
    import json
    import frappy.persistent as pm
    fs = FS()
    setup(env, fs)
    pm.json = json
    text = json.dumps({'p1': 7.5, 'p2': 3, 'p4': 'é"x', 'p5': {'x': 1.5, 'n': 2}}, indent=2) + '\n'

    class TextFile(FakeFile):
        def read(self, *a):
            return self.fs.files[self.path][0]

        def write(self, chunk):
            self.fs.files[self.path] = [self.fs.files[self.path][0] + chunk] if self.fs.files[self.path] else [chunk]

    def topen(path, mode='r', encoding=None):
        path = str(path)
        if 'w' in mode:
            fs.files[path] = []
        elif path not in fs.files:
            raise FileNotFoundError(path)
        return TextFile(fs, path, mode)
    pm.open = topen
    K = 'C17/text-truncation'
    for cut in range(len(text) + 1):
        fs.files = {TARGET: [text[:cut]]}
        try:
            srv, mod, _ = make_module(fs)
        except Exception as e:
            env.fail(K + '/startup-prevented/' + type(e).__name__, [cut, repr(e)])
            return
        if cut < len(text) - 2:
            env.check(mod.p1 == 1.5 and mod.p2 == 2, K + '/truncated-file-used', cut)
        written = fs.files[TARGET][0]
        env.check(json.loads(written)['p2'] == mod.p2, K + '/rewritten-file-not-complete', cut)
    # other unusable contents for the real json module: very deep nesting, a bare number, an empty file, binary garbage
    for name, content in (('deep-nesting', '[' * 100000), ('deep-object', '{"a":' * 50000), ('number', '17'), ('empty', ''),
                          ('garbage', '\x00\xff\x00')):
        fs.files = {TARGET: [content]}
        try:
            srv, mod, _ = make_module(fs)
        except Exception as e:
            env.fail(K + f'/{name}/startup-prevented/' + type(e).__name__, repr(e)[:100])
            return
        env.check(mod.p1 == 1.5 and mod.p2 == 2, K + f'/{name}/unusable-file-used')
    for t in REQUIRED_TAGS:
        env.note(t)


def run_persistent_limit(env, p):
    """a limit parameter declared persistent is saved and restored like every other persistent parameter"""
    fs = FS()
    setup(env, fs)
    srv, mod, wlog = make_module(fs, with_limit=True)
    mod.writeInitParams()
    K = 'C17/persistent-limit'
    v = env.real('limit', 1, 99)
    mod.p1_max = v
    mod.saveParameters()
    snap = file_snapshot(fs, TARGET)
    env.check(isinstance(snap, dict) and 'p1_max' in snap, K + '/limit-not-in-the-saved-snapshot', sorted(snap) if isinstance(snap, dict) else snap)
    srv2, mod2, _ = make_module(fs, with_limit=True)
    env.check(M.eq(mod2.p1_max, v), K + '/limit-not-restored', None)
    for t in REQUIRED_TAGS:
        env.note(t)
