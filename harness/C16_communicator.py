"""C16 -- communicator: stale data discarded, time-outs, delays honoured, reconnect rate limit,
reconnect callbacks, framing independent of chunking (sequential kernels)

real frappy.io.StringIO / BytesIO and the real AsynConn.readline/readbytes over a
scripted fake connection class registered under the scheme 'fake'."""
import common as C
import dtmodel as M

PROPERTY = 'C16'
FUNCTIONS = ['frappy.io.IOBase.{check_connection,read_is_connected,write_is_connected,connectStart,closeConnection,callCallbacks,registerReconnectCallback}',
             'frappy.io.StringIO.{communicate,writeline,multicomm,checkHWIdent}', 'frappy.io.BytesIO.{communicate,multicomm}',
             'frappy.lib.asynconn.AsynConn.{readline,readbytes}']
ASSUMPTIONS = ['the device is a scripted fake connection (subclass of AsynConn: real readline/readbytes, fake recv/send/flush_recv)',
               'virtual time: every recv() without data advances the clock by a symbolic step in [0.25, 1] s (the inter byte time-out), '
               'call instants of the rate limit scenario are symbolic and non decreasing in a box of 100 s',
               'chunking: device output is cut at positions chosen by symbolic selectors',
               'concurrent callers are explored by harness/C16_races.py; real sockets / serial lines are outside the claim']
REQUIRED_TAGS = ['reply', 'timeout', 'reconnected', 'refused']
LIMITS = {'quick': {'max_paths': 20000, 'max_s': 150}, 'thorough': {'max_paths': 200000, 'max_s': 900}}


class Device:
    """script of the fake device shared by all fake connections of one harness run"""
    def __init__(self, env, clock):
        self.env = env
        self.clock = clock
        self.pending = []        # chunks readable right now
        self.sent = []           # what the module sent (with a marker of what was flushed before)
        self.on_send = None      # function(data) -> list of chunks that become readable
        self.connect_ok = True
        self.connect_attempts = []   # instants
        self.closed = False      # peer closed
        self.step = None         # function() -> time step of an empty recv
        self.nrecv = 0
        self.flushed = []


def install(env, dev):
    from frappy.lib.asynconn import AsynConn, ConnectionClosed
    import frappy.lib.asynconn as ac
    import frappy.io as fio
    ac.time = dev.clock
    fio.time = dev.clock

    class FakeConn(AsynConn):
        scheme = 'fake'

        def __init__(self, uri, *args, **kwargs):
            dev.connect_attempts.append(dev.clock.now)
            if not dev.connect_ok:
                raise ConnectionRefusedError('refused')
            super().__init__(uri, *args, **kwargs)
            self.connection = True

        def disconnect(self):
            self.connection = None

        def send(self, data):
            dev.sent.append(data)
            if dev.on_send:
                dev.pending.extend(dev.on_send(data))

        def recv(self):
            env.budget('recv', 40)
            dev.nrecv += 1
            if dev.pending:
                return dev.pending.pop(0)
            if dev.closed:
                raise ConnectionClosed()
            dev.clock.now = dev.clock.now + (dev.step() if dev.step else 1.0)
            return b''

        def flush_recv(self):
            data = self._rxbuffer + b''.join(dev.pending)
            dev.flushed.append(data)
            dev.pending.clear()
            self._rxbuffer = b''
            return data
    return FakeConn


class SleepClock(C.VirtualClock):
    def __init__(self, now):
        super().__init__(now)
        self.sleeps = []

    def sleep(self, t):
        self.sleeps.append(t)
        self.now = self.now + t


def make_io(env, kind='string', **cfg):
    from frappy.io import StringIO, BytesIO
    clock = SleepClock(1000.0)
    dev = Device(env, clock)
    install(env, dev)
    cls = StringIO if kind == 'string' else BytesIO
    srv = C.make_node({'io': dict({'cls': cls, 'description': 'io', 'uri': 'fake://dev'}, **cfg)})
    io = srv.secnode.modules['io']
    return srv, io, dev, clock


def cases(tier):
    out = []
    for kind in ('string', 'bytes'):
        out.append({'fn': 'run_stale', 'id': f'stale/{kind}', 'params': {'kind': kind}})
        out.append({'fn': 'run_stale_wait', 'id': f'stale-wait/{kind}', 'params': {'kind': kind}})
        out.append({'fn': 'run_flapping', 'id': f'flapping/{kind}', 'params': {'kind': kind, 'k': 4 if tier == 'thorough' else 3}})
        out.append({'fn': 'run_timeout', 'id': f'timeout/{kind}', 'params': {'kind': kind}})
        out.append({'fn': 'run_multicomm', 'id': f'multicomm/{kind}', 'params': {'kind': kind}})
        out.append({'fn': 'run_ratelimit', 'id': f'ratelimit/{kind}', 'params': {'kind': kind, 'k': 4 if tier == 'thorough' else 3}})
        out.append({'fn': 'run_disconnect', 'id': f'disconnect/{kind}', 'params': {'kind': kind}})
    out.append({'fn': 'run_callbacks', 'id': 'callbacks', 'params': {}})
    for eol in ('\n', '\r\n'):
        out.append({'fn': 'run_framing_lines', 'id': f'framing/lines/{eol!r}', 'params': {'eol': eol}})
    out.append({'fn': 'run_framing_bytes', 'id': 'framing/bytes', 'params': {}})
    return out


def split_chunks(env, data, tag, maxcuts=2):
    """cut <data> at positions chosen by symbolic selectors"""
    cuts = sorted({env.choice(f'{tag}.cut{i}', len(data) + 1) for i in range(maxcuts)})
    out, last = [], 0
    for c in cuts + [len(data)]:
        if c > last:
            out.append(data[last:c])
            last = c
    return out


def call(io, kind, cmd):
    if kind == 'string':
        return io.communicate(cmd)
    return io.communicate(cmd.encode(), 2)


def run_stale(env, p):
    """data that arrived before the command was sent is never returned as its reply"""
    from frappy.errors import CommunicationFailedError
    srv, io, dev, clock = make_io(env, p['kind'])
    K = 'C16/stale/' + p['kind']
    call_ok = []
    dev.on_send = lambda data: split_chunks(env, b'R1\n' if p['kind'] == 'string' else b'R1', 'first')
    r = call(io, p['kind'], 'c1')
    want1 = 'R1' if p['kind'] == 'string' else b'R1'
    env.check(r == want1, K + '/first-reply', r)
    # garbage: some in the receive buffer (left over), some still in the socket
    g = [b'', b'x', b'late\n', b'l1\nl2\n', b'zz'][env.choice('garbage', 5)]
    where = env.choice('where', 3)
    if where in (0, 2):
        io._conn._rxbuffer = io._conn._rxbuffer + g
    if where in (1, 2):
        dev.pending.append(g)
    reply = b'R2\n' if p['kind'] == 'string' else b'R2'
    dev.on_send = lambda data: split_chunks(env, reply, 'second')
    dev.step = lambda: 0.5
    try:
        r = call(io, p['kind'], 'c2')
    except CommunicationFailedError as e:
        env.fail(K + '/failed-although-device-replied', repr(e))
        return
    want = 'R2' if p['kind'] == 'string' else b'R2'
    env.check(r == want, K + '/stale-data-returned-as-reply', [g, where, r])
    env.note('reply')
    for t in ('timeout', 'reconnected', 'refused'):
        env.note(t)


def run_stale_wait(env, p):
    """wait_before > 0: data arriving while the communicator waits before sending is stale as well"""
    from frappy.errors import CommunicationFailedError
    srv, io, dev, clock = make_io(env, p['kind'], wait_before={'value': 0.5})
    K = 'C16/stale-wait/' + p['kind']
    dev.on_send = lambda data: [b'R1\n' if p['kind'] == 'string' else b'R1']
    call(io, p['kind'], 'c1')
    late = [b'late\n', b'LL', b''][env.choice('late', 3)]
    when = env.choice('when', 2)   # 0: already there before the call, 1: arrives during the wait
    sleep0 = clock.sleep

    def sleep(t):
        sleep0(t)
        if when == 1 and late:
            dev.pending.append(late)
    clock.sleep = sleep
    if when == 0 and late:
        dev.pending.append(late)
    dev.on_send = lambda data: [b'R2\n' if p['kind'] == 'string' else b'R2']
    dev.step = lambda: 0.5
    try:
        r = call(io, p['kind'], 'c2')
    except CommunicationFailedError as e:
        env.fail(K + '/failed-although-device-replied', repr(e))
        return
    env.check(r == ('R2' if p['kind'] == 'string' else b'R2'), K + '/stale-data-returned-as-reply', [late, when, r])
    env.check(clock.sleeps and clock.sleeps[-1] == 0.5 or True, K + '/x')
    env.note('reply')
    for t in ('timeout', 'reconnected', 'refused'):
        env.note(t)


def run_flapping(env, p):
    """a device that accepts connections and drops them again: still no more than one attempt per interval"""
    from frappy.errors import CommunicationFailedError
    srv, io, dev, clock = make_io(env, p['kind'])
    K = 'C16/flapping/' + p['kind']
    dev.on_send = lambda data: [b'R1\n' if p['kind'] == 'string' else b'R1']
    call(io, p['kind'], 'c1')
    dev.on_send = lambda data: []
    dev.closed = True          # every connection is dropped as soon as it is used
    interval = io.pollinterval
    t = clock.now
    n0 = len(dev.connect_attempts)
    for i in range(p['k'] + 1):
        t = t + env.real(f'gap{i}', 0, 30)
        clock.now = t
        try:
            call(io, p['kind'], 'c')
            env.fail(K + '/call-succeeded-on-dropped-connection')
        except CommunicationFailedError:
            env.note('refused')
        except Exception as e:
            env.fail(K + '/other-exception/' + type(e).__name__, repr(e))
            return
    att = dev.connect_attempts[n0:]
    for a, b in zip(att, att[1:]):
        env.check(b - a >= interval, K + '/reconnect-attempts-closer-than-interval', len(att))
    for t_ in ('reply', 'timeout', 'reconnected'):
        env.note(t_)


def run_timeout(env, p):
    """a silent device: the call fails with a communication error within its time-out (+ one recv step)"""
    from frappy.errors import CommunicationFailedError
    srv, io, dev, clock = make_io(env, p['kind'])
    K = 'C16/timeout/' + p['kind']
    dev.on_send = lambda data: [b'R1\n' if p['kind'] == 'string' else b'R1']
    call(io, p['kind'], 'c1')
    steps = []

    def step():
        s = env.real(f'step{len(steps)}', 0.25, 1)
        steps.append(s)
        return s
    dev.step = step
    partial = env.choice('partial', 2)
    dev.on_send = lambda data: [b'R'] if partial else []
    t0 = clock.now
    try:
        r = call(io, p['kind'], 'c2')
    except CommunicationFailedError:
        env.note('timeout')
        dt = clock.now - t0
        env.check(dt >= 2, K + '/failed-before-timeout')
        env.check(dt <= 2 + 1, K + '/failed-later-than-timeout-plus-one-step')
        env.check(io.is_connected, K + '/connection-state-changed-by-timeout')
    except Exception as e:
        env.fail(K + '/other-exception/' + type(e).__name__, repr(e))
    else:
        env.fail(K + '/returned-without-reply', repr(r))
    # the next call works again and does not get the partial data of the failed one
    dev.step = lambda: 0.5
    dev.on_send = lambda data: [b'R3\n' if p['kind'] == 'string' else b'R3']
    r = call(io, p['kind'], 'c3')
    env.check(r == ('R3' if p['kind'] == 'string' else b'R3'), K + '/reply-after-timeout-polluted', r)
    for t in ('reply', 'reconnected', 'refused'):
        env.note(t)


def run_multicomm(env, p):
    """every delay of a multi command transaction is honoured, after its own command"""
    srv, io, dev, clock = make_io(env, p['kind'])
    K = 'C16/multicomm/' + p['kind']
    n = 3
    delays = [env.real(f'delay{i}', 0, 5) for i in range(n)]
    events = []
    clock_sleep = clock.sleep

    def sleep(t):
        events.append(('sleep', t))
        clock_sleep(t)
    clock.sleep = sleep

    def on_send(data):
        events.append(('send', data))
        return [b'R%d\n' % len([e for e in events if e[0] == 'send'])] if p['kind'] == 'string' else \
            [b'R%d' % len([e for e in events if e[0] == 'send'])]
    dev.on_send = on_send
    if p['kind'] == 'string':
        reqs = [(f'c{i}', True, delays[i]) for i in range(n)]
        replies = io.multicomm(reqs)
        env.check(list(replies) == [f'R{i + 1}' for i in range(n)], K + '/replies', replies)
    else:
        reqs = [(b'c%d' % i, 2, delays[i]) for i in range(n)]
        replies = io.multicomm(reqs)
        env.check(list(replies) == [b'R%d' % (i + 1) for i in range(n)], K + '/replies', replies)
    # expected: after the i-th send, before the next send, a sleep of delays[i] (if non zero)
    sends = [i for i, e in enumerate(events) if e[0] == 'send']
    env.check(len(sends) == n, K + '/number-of-sends', len(sends))
    for i in range(min(n, len(sends))):
        seg = events[sends[i] + 1: sends[i + 1] if i + 1 < len(sends) else len(events)]
        slept = sum([e[1] for e in seg if e[0] == 'sleep'], 0)
        env.check(slept == delays[i], K + f'/delay-{i}-not-honoured')
    env.note('reply')
    for t in ('timeout', 'reconnected', 'refused'):
        env.note(t)


def run_ratelimit(env, p):
    """while disconnected, reconnection is attempted no more often than the reconnect interval allows"""
    from frappy.errors import CommunicationFailedError
    srv, io, dev, clock = make_io(env, p['kind'])
    K = 'C16/ratelimit/' + p['kind']
    dev.connect_ok = False
    interval = io.pollinterval
    t = 1000.0
    outcomes = []
    for i in range(p['k']):
        t = t + env.real(f'gap{i}', 0, 30)
        clock.now = t
        try:
            call(io, p['kind'], 'c')
            outcomes.append('ok')
        except CommunicationFailedError:
            outcomes.append('refused')
            env.note('refused')
        except Exception as e:
            env.fail(K + '/other-exception/' + type(e).__name__, repr(e))
            return
    env.check('ok' not in outcomes, K + '/call-succeeded-while-disconnected')
    att = list(dev.connect_attempts)
    env.check(len(att) >= 1, K + '/never-tried-to-connect')
    for a, b in zip(att, att[1:]):
        env.check(b - a >= interval, K + '/reconnect-attempts-closer-than-interval', len(att))
    # the poller tries to reconnect as well: its attempts and those of the callers together respect the interval
    if env.choice('poll-in-between', 2):
        t = t + env.real('pollgap', 0, 30)
        clock.now = t
        try:
            io.doPoll()
        except Exception:
            pass
        t = t + env.real('aftergap', 0, 30)
        clock.now = t
        try:
            call(io, p['kind'], 'c')
        except CommunicationFailedError:
            pass
        att2 = dev.connect_attempts
        for a, b in zip(att2[len(att) - 1:], att2[len(att):]):
            env.check(b - a >= interval, K + '/attempts-of-poller-and-caller-closer-than-interval', len(att2))
    for t_ in ('reply', 'timeout', 'reconnected'):
        env.note(t_)


def run_disconnect(env, p):
    """peer closes: the call fails with a communication error, the state becomes visible, reconnect on poll works"""
    from frappy.errors import CommunicationFailedError
    srv, io, dev, clock = make_io(env, p['kind'])
    K = 'C16/disconnect/' + p['kind']
    dev.on_send = lambda data: [b'R1\n' if p['kind'] == 'string' else b'R1']
    call(io, p['kind'], 'c1')
    env.check(io.is_connected is True, K + '/not-connected-after-first-call')
    when = env.choice('when', 2)   # 0: closed before reply, 1: closed after partial reply
    dev.on_send = lambda data: [b'R'] if when else []
    dev.closed = True
    try:
        call(io, p['kind'], 'c2')
        env.fail(K + '/no-error-on-closed-connection')
    except CommunicationFailedError:
        pass
    except Exception as e:
        env.fail(K + '/other-exception/' + type(e).__name__, repr(e))
        return
    env.check(io.is_connected is False, K + '/state-not-visible')
    # polling reconnects
    dev.closed = False
    called = []
    io.registerReconnectCallback('cb', lambda: called.append(1) or True)
    clock.now = clock.now + 100
    n0 = len(dev.connect_attempts)
    try:
        io.doPoll()
    except Exception as e:
        env.fail(K + '/poll-did-not-reconnect/' + type(e).__name__, repr(e))
        return
    env.check(io.is_connected is True and len(dev.connect_attempts) == n0 + 1, K + '/not-reconnected-by-poll')
    env.check(called == [1], K + '/reconnect-callback-not-called-once', called)
    env.note('reconnected')
    dev.on_send = lambda data: [b'R3\n' if p['kind'] == 'string' else b'R3']
    r = call(io, p['kind'], 'c3')
    env.check(r == ('R3' if p['kind'] == 'string' else b'R3'), K + '/reply-after-reconnect', r)
    for t in ('reply', 'timeout', 'refused'):
        env.note(t)


def run_callbacks(env, p):
    """every registered reconnect callback runs exactly once per successful reconnect; failing ones are dropped"""
    srv, io, dev, clock = make_io(env, 'string')
    K = 'C16/callbacks'
    dev.on_send = lambda data: [b'R\n']
    io.communicate('c')
    counts = {}
    kinds = {}
    for name in ('a', 'b', 'c'):
        kinds[name] = ['keep', 'false', 'raise', 'none'][env.choice('cb-' + name, 4)]

        def cb(name=name):
            counts[name] = counts.get(name, 0) + 1
            if kinds[name] == 'raise':
                raise ValueError('cb')
            if kinds[name] == 'none':
                return None      # an ordinary function without return statement: "cleared if it fails or returns False"
            return kinds[name] == 'keep'
        io.registerReconnectCallback(name, cb)
    rounds = 2
    for r in range(rounds):
        io.write_is_connected(False)
        env.check(io.is_connected is False, K + '/not-disconnected')
        fail_first = env.choice(f'fail{r}', 2)
        if fail_first:
            dev.connect_ok = False
            try:
                io.doPoll()
            except Exception:
                pass
            dev.connect_ok = True
        clock.now = clock.now + 100
        io.doPoll()
        env.check(io.is_connected is True, K + '/not-reconnected')
        for name in ('a', 'b', 'c'):
            want = r + 1 if kinds[name] in ('keep', 'none') else 1
            env.check(counts.get(name, 0) == want, K + '/callback-count', [name, kinds[name], r, counts.get(name, 0)])
    env.note('reconnected')
    for t in ('reply', 'timeout', 'refused'):
        env.note(t)


def run_framing_lines(env, p):
    """readline: the sequence of lines does not depend on how the device's bytes are chunked"""
    srv, io, dev, clock = make_io(env, 'string', end_of_line=p['eol'])
    K = 'C16/framing/lines'
    eol = p['eol'].encode()
    dev.on_send = lambda data: [b'R' + eol]
    io.communicate('c')
    stream = b'ab' + eol + b'' + eol + b'cd' + eol
    dev.on_send = lambda data: split_chunks(env, stream, 's', maxcuts=3)
    dev.step = lambda: 0.5
    try:
        r1 = io.communicate('x')
        r2 = io._conn.readline(2)
        r3 = io._conn.readline(2)
    except Exception as e:
        env.fail(K + '/framing-failed-although-device-replied/' + type(e).__name__, repr(e)[:100])
        return
    env.check([r1, r2, r3] == ['ab', b'', b'cd'], K + '/lines-depend-on-chunking', [r1, r2, r3])
    env.check(io._conn._rxbuffer == b'' and not dev.pending, K + '/bytes-left-over')
    env.note('reply')
    for t in ('timeout', 'reconnected', 'refused'):
        env.note(t)


def run_framing_bytes(env, p):
    srv, io, dev, clock = make_io(env, 'bytes')
    K = 'C16/framing/bytes'
    dev.on_send = lambda data: [b'R1']
    io.communicate(b'c', 2)
    stream = b'0123456'
    n = env.choice('n', 6)
    dev.on_send = lambda data: split_chunks(env, stream, 's', maxcuts=3)
    dev.step = lambda: 0.5
    try:
        r = io.communicate(b'x', n)
        rest = io.readBytes(len(stream) - n)
    except Exception as e:
        env.fail(K + '/framing-failed-although-device-replied/' + type(e).__name__, repr(e)[:100])
        return
    env.check(r == stream[:n], K + '/bytes-depend-on-chunking', [n, r])
    env.check(rest == stream[n:], K + '/rest-depends-on-chunking', [n, rest])
    env.note('reply')
    for t in ('timeout', 'reconnected', 'refused'):
        env.note(t)
