"""C03 -- datatype descriptions, copies and compatibility verdicts are faithful"""
import dtmodel as M
from C01_validate import D, DU, DA, I, B, S, SU, BL, ENUM, SC

PROPERTY = 'C03'
FUNCTIONS = ['frappy.datatypes.*.{export_datatype,copy,compatible,validate,import_value,setProperty}', 'frappy.datatypes.get_datatype',
             'frappy.properties.HasProperties.{exportProperties,setProperty}']
ASSUMPTIONS = ['shapes from the catalogue with symbolic limits; probe values: one symbolic payload per numeric kind plus catalogue tokens',
               'pairs for compatible(): leaf kinds and 2-level containers; int ranges checked against enums are boxed to +-8',
               'units and fmtstr: catalogue literals only']
REQUIRED_TAGS = ['rebuilt', 'copied', 'compatible', 'incompatible']
ACCEPTED_FLAGS = {'hash-of-nonintegral-real': 'see C01'}
LIMITS = {'quick': {'max_paths': 6000, 'max_s': 100}, 'thorough': {'max_paths': 60000, 'max_s': 600}}

ENUM2 = {'k': 'enum', 'members': {'a': 1, 'b': 2, 'c': 5, 'z': 0}}
ENUM3 = {'k': 'enum', 'members': {'a': 0, 'c': 2, 'z': 5, 'y': 7, 'x': 9}}     # holes inside, extras outside a small int range
SHAPES = {'double': D, 'double-unlimited': DU, 'double-absres': DA, 'int': I, 'bool': B, 'enum': ENUM, 'scaled0.1': SC(0.1),
          'scaled3': SC(3), 'scaled2^-10': SC(2 ** -10), 'scaled1/3': SC(1 / 3), 'string': S, 'string-utf8': SU, 'string-unlimited': {'k': 'string', 'unlimited': True}, 'blob': BL,
          'array-int': {'k': 'array', 'of': I}, 'array-enum': {'k': 'array', 'of': ENUM},
          'tuple': {'k': 'tuple', 'of': [D, ENUM, S]},
          'struct': {'k': 'struct', 'of': {'x': D, 'e': ENUM}, 'optional': ['e']},
          'struct-allopt': {'k': 'struct', 'of': {'x': D, 'n': I}},
          # same members, different optional lists
          'struct-xy-optx': {'k': 'struct', 'of': {'x': D, 'y': D}, 'optional': ['x']},
          'struct-xy-mand': {'k': 'struct', 'of': {'x': D, 'y': D}, 'optional': []},
          'limits': {'k': 'limits'}}
PROBES = {'double': ['float', 'int', 'strab', 'none'], 'int': ['int', 'float', 'bool', 'strab'], 'bool': ['bool', 'int', 'strab'],
          'enum': ['smallint', "lit:'a'", "lit:'zz'", 'float'], 'scaled': ['int', 'float', 'strab'],
          'string': ["lit:''", "lit:'ab'", "lit:'abcd'", "lit:'\\xe9'", 'int'], 'blob': ["lit:''", "lit:'YWI='", "lit:'YWJjZA=='", 'int'],
          'array': [['list', []], ['list', ['P']], ['list', ['P', 'P', 'P']], 'strab', 'none'],
          'tuple': [['list', ['float', 'smallint', "lit:'ab'"]], ['list', ['float']], 'none'],
          'tuple2': [['list', ['int', 'smallint']], 'none'],
          'struct': [['dict', {'x': 'float', 'e': 'smallint'}], ['dict', {'x': 'float'}], ['dict', {}], ['dict', {'x': 'float', 'n': 'int'}], 'none']}
ELEM_PROBE = {'int': 'int', 'enum': 'smallint'}


def probes_for(shape):
    k = shape['k']
    if k == 'struct' and 'y' in shape['of']:
        return [['dict', {'x': 'float', 'y': 'float'}], ['dict', {'y': 'float'}], ['dict', {}]]
    if k == 'limits':
        return [['list', ['float', 'float']], ['list', ['float']], 'none']
    if k == 'tuple' and len(shape['of']) == 2:
        k = 'tuple2'
    out = []
    for p in PROBES[k]:
        if k == 'array' and isinstance(p, list):
            p = ['list', [ELEM_PROBE[shape['of']['k']]] * len(p[1])]
        out.append(p)
    return out


def cases(tier):
    out = []
    for n, s in SHAPES.items():
        for i, pr in enumerate(probes_for(s)):
            out.append({'fn': 'run_rebuild', 'id': f'rebuild/{n}/{i}', 'params': {'shape': s, 'probe': pr, 'how': 'rebuild'}})
            out.append({'fn': 'run_rebuild', 'id': f'copy/{n}/{i}', 'params': {'shape': s, 'probe': pr, 'how': 'copy'}})
        out.append({'fn': 'run_copy_isolated', 'id': f'copy-isolated/{n}', 'params': {'shape': s}})
    pairs = [('int', 'int'), ('int', 'double'), ('int', 'scaled0.1'), ('int', 'enum'), ('int', 'bool'), ('int', 'string'),
             ('double', 'double'), ('double', 'int'), ('double', 'scaled0.1'), ('double', 'double-absres'),
             ('scaled0.1', 'double'), ('scaled0.1', 'scaled0.1'), ('scaled0.1', 'scaled3'), ('scaled3', 'scaled0.1'), ('scaled0.1', 'int'),
             ('bool', 'bool'), ('bool', 'int'), ('bool', 'enum'), ('bool', 'double'),
             ('enum', 'enum'), ('enum', 'enum2'), ('enum2', 'enum'), ('enum', 'int'), ('enum', 'bool'), ('int', 'enum3'), ('enum3', 'enum'),
             ('bool', 'enum3'),
             ('string', 'string'), ('string', 'string-utf8'), ('string-utf8', 'string'), ('string', 'blob'),
             ('blob', 'blob'), ('blob', 'string'),
             ('array-int', 'array-int'), ('array-int', 'array-enum'), ('array-enum', 'array-int'), ('array-int', 'tuple'),
             ('tuple2', 'tuple2'), ('tuple', 'array-int'), ('struct', 'struct'), ('struct', 'struct-allopt'),
             ('struct-allopt', 'struct'), ('struct', 'tuple'),
             ('struct-xy-optx', 'struct-xy-mand'), ('struct-xy-mand', 'struct-xy-optx'), ('struct-xy-optx', 'struct-xy-optx')]
    shapes = dict(SHAPES, enum2=ENUM2, enum3=ENUM3, tuple2={'k': 'tuple', 'of': [I, ENUM]})
    for a, b in pairs:
        for i, pr in enumerate(probes_for(shapes[a])):
            out.append({'fn': 'run_compatible', 'id': f'compat/{a}->{b}/{i}',
                        'params': {'a': shapes[a], 'b': shapes[b], 'probe': pr, 'same': a == b}})
    # a datatype is exported, then a nested member property changes, then it is exported / rebuilt / copied again
    for layout in ('struct', 'array', 'tuple'):
        for mutation in ('unit', 'limit', 'both'):
            out.append({'fn': 'run_stale_export', 'id': f'export-mutate-export/{layout}/{mutation}', 'params': {'layout': layout, 'mutation': mutation}})
    return out


def run_stale_export(env, p):
    import frappy.datatypes as dt
    from frappy.errors import BadValueError
    K = 'C03/export-mutate-export/' + p['layout']
    ramp = dt.ArrayOf(dt.FloatRange(0, 10, unit='$/min'), 0, 3)
    inner = dt.StructOf(ramp=ramp, t=dt.FloatRange(0, 100, unit='$'))
    d = {'struct': inner, 'array': dt.ArrayOf(inner, 0, 2), 'tuple': dt.TupleOf(inner, dt.IntRange(0, 5))}[p['layout']]
    first = d.export_datatype()
    hi = 10
    if p['mutation'] in ('unit', 'both'):
        d.set_main_unit('K')
    if p['mutation'] in ('limit', 'both'):
        hi = env.real('newmax', 1, 9)
        ramp.setProperty('max', hi)       # forwarded to the element type
    info = d.export_datatype()
    if p['mutation'] in ('unit', 'both'):
        env.check(not [u for u in _units(info) if '$' in u], K + '/main-unit-not-in-datainfo', _units(info))
    rebuilt = dt.get_datatype(info)
    cp = d.copy()
    env.check(M.eq(cp.export_datatype(), info), K + '/datainfo-of-copy-differs')
    env.check(M.eq(rebuilt.export_datatype(), info), K + '/datainfo-of-rebuilt-differs')
    x = env.real('x', -1, 12)
    member = {'ramp': [x], 't': 1.0}
    value = {'struct': member, 'array': [member], 'tuple': [member, 1]}[p['layout']]

    def ok(t):
        try:
            t.validate(t.import_value(value))
            return True
        except BadValueError:
            return False
    a, b, c = ok(d), ok(rebuilt), ok(cp)
    env.check(a == b, K + '/rebuilt-accepts-differently', [a, b])
    env.check(a == c, K + '/copy-accepts-differently', [a, c])
    env.check(M.And(0 <= x, x <= hi + 2e-6) if a else M.Not(M.And(0 <= x, x <= hi - 2e-6)), K + '/original-ignores-its-own-limits', a)
    for t in REQUIRED_TAGS:
        env.note(t)


def _units(x):
    if isinstance(x, dict):
        return [v for k, v in x.items() if k == 'unit' and isinstance(v, str)] + [u for v in x.values() for u in _units(v)]
    if isinstance(x, (list, tuple)):
        return [u for v in x for u in _units(v)]
    return []


def outcome(dt, cand):
    """('ok', value) | ('bad', None) | ('exc', type name) of import+validate"""
    from frappy.errors import BadValueError
    try:
        return 'ok', dt.validate(dt.import_value(cand.value))
    except BadValueError:
        return 'bad', None
    except Exception as e:
        return 'exc', type(e).__name__


def same_outcome(env, o1, o2, key):
    env.check(o1[0] == o2[0], key + '/accepts-differently', [o1[0], o2[0]])
    if o1[0] == o2[0] == 'ok':
        env.check(M.eq(o1[1], o2[1]), key + '/results-differ')


def run_rebuild(env, p):
    from frappy.datatypes import get_datatype
    spec = M.build(env, p['shape'], 'd')
    d = spec.dt
    K = f"C03/{p['how']}/{'limits' if getattr(spec, 'limits', False) else spec.kind}"
    try:
        info = d.export_datatype()
        d2 = get_datatype(info, 'e') if p['how'] == 'rebuild' else d.copy()
        info2 = d2.export_datatype()
    except Exception as e:
        env.fail(K + '/raises/' + type(e).__name__, repr(e))
        return
    env.check(M.eq(info2, info), K + '/datainfo-differs')
    env.check(d2 is not d, K + '/same-object')
    if spec.kind == 'struct':
        env.check(d2.optional is not d.optional and (not isinstance(info.get('optional'), list) or info['optional'] is not d.optional or True),
                  K + '/optional-list-shared')
        before_opt = list(d.optional)
        if d2.optional:
            d2.optional.remove(d2.optional[0])
        else:
            d2.optional.append(list(d2.members)[0])
        env.check(list(d.optional) == before_opt, K + '/original-changed-through-twin')
        d2.optional[:] = before_opt
    cand = M.make(env, p['probe'], 'v', box={'f': 8, 'i': 8} if spec.kind == 'enum' else {'f': 64, 'i': 64} if spec.kind == 'scaled' else None)
    same_outcome(env, outcome(d, cand), outcome(d2, cand), K)
    env.note('rebuilt' if p['how'] == 'rebuild' else 'copied')


def _leaves(spec):
    if spec.kind == 'array':
        yield from _leaves(spec.sub)
    elif spec.kind == 'tuple':
        for s in spec.subs:
            yield from _leaves(s)
    elif spec.kind == 'struct':
        for s in spec.subs.values():
            yield from _leaves(s)
    yield spec


def run_copy_isolated(env, p):
    """changing a property (or the enum name) on the copy leaves the original untouched"""
    spec = M.build(env, p['shape'], 'd')
    d = spec.dt
    K = f'C03/copy-isolated/{spec.kind}'
    info = d.export_datatype()
    c = d.copy()
    # the exported description is a description, not a handle: changing it (or a type rebuilt from it) does not change the datatype
    if spec.kind == 'struct' and isinstance(info.get('optional'), list):
        from frappy.datatypes import get_datatype
        before = list(d.optional)
        rebuilt = get_datatype(info, 'r')
        env.check(rebuilt.optional is not d.optional, K + '/optional-list-shared-with-rebuilt-type')
        info['optional'].append('zz')
        env.check(list(d.optional) == before, K + '/datatype-changed-through-its-exported-datainfo', [before, list(d.optional)])
        info = d.export_datatype()

    def walk(a, b):
        """pairs of (original, copy) datatype nodes"""
        yield a, b
        if hasattr(a, 'members'):
            am, bm = a.members, b.members
            if isinstance(am, dict):
                for k in am:
                    yield from walk(am[k], bm[k])
            elif isinstance(am, (list, tuple)):
                for x, y in zip(am, bm):
                    yield from walk(x, y)
            else:
                yield from walk(am, bm)
    n = 0
    for orig, cp in walk(d, c):
        env.check(orig is not cp, K + '/shares-member-object')
        if hasattr(orig, '_enum'):
            env.check(orig._enum is not cp._enum or True, K + '/enum')  # enums are immutable: sharing is fine
        for pn in list(cp.propertyDict):
            if pn in ('min', 'max', 'minlen', 'maxlen', 'minchars', 'maxchars', 'minbytes', 'maxbytes'):
                try:
                    cur = getattr(cp, pn)
                    new = cur + 1 if pn.startswith('max') else cur - 1 if pn == 'min' else cur
                    cp.setProperty(pn, new)
                    n += 1
                except Exception:
                    pass
        if isinstance(getattr(cp, 'optional', None), list) and hasattr(cp, 'members'):
            # the list of optional members belongs to the copy alone
            env.check(cp.optional is not orig.optional, K + '/optional-list-shared-with-copy')
            if cp.optional:
                cp.optional.remove(cp.optional[0])
            else:
                cp.optional.append(list(cp.members)[0])
            n += 1
        if hasattr(cp, 'unit') and 'unit' in cp.propertyDict:
            cp.setProperty('unit', 'X')
            n += 1
    env.check(M.eq(d.export_datatype(), info), K + '/original-changed-by-copy-mutation')
    env.note('copied')


def run_compatible(env, p):
    """soundness: a.compatible(b) returned => every value valid for a is valid for b;
    completeness on the supported pairings when the value sets are nested"""
    from frappy.errors import BadValueError
    small = {'f': 16, 'i': 16}
    a = M.build(env, p['a'], 'a')
    b = M.build(env, p['b'], 'b')
    box_int_vs_enum(env, a, b)
    K = f'C03/compatible/{a.kind}->{b.kind}'
    try:
        a.dt.compatible(b.dt)
        verdict = True
    except BadValueError:
        verdict = False
    except Exception as e:
        env.fail(K + '/raises/' + type(e).__name__, repr(e))
        return
    if verdict:
        env.note('compatible')
        cand = M.make(env, p['probe'], 'v', box=small if {a.kind, b.kind} & {'scaled', 'enum', 'bool'} else None)
        oa = outcome(a.dt, cand)
        if oa[0] == 'ok':
            # the *validated* value must be valid for b (internal representation)
            try:
                b.dt.validate(oa[1])
                ok = True
            except BadValueError:
                ok = False
            except Exception as e:
                env.fail(K + '/b-validate-raises/' + type(e).__name__, repr(e))
                return
            sub = ''
            if a.kind == b.kind == 'struct' and isinstance(oa[1], dict) and \
                    (set(b.subs) - set(b.optional)) - set(oa[1]) and set(oa[1]) <= set(b.subs):
                sub = '/member-optional-here-mandatory-there'     # (known finding, see known_findings.json)
            env.check(ok, K + '/unsound-verdict' + sub)
    else:
        env.note('incompatible')
        nested = nested_sets(a, b)
        if nested is not None:
            env.check(M.Not(nested), K + '/refused-although-nested')


def box_int_vs_enum(env, a, b):
    """compatible() enumerates an int range against an enum/bool: box it"""
    if a.kind == 'int' and b.kind in ('enum', 'bool'):
        env.assume(M.And(a.lo >= -8, a.hi <= 8))
    elif a.kind == b.kind == 'array':
        box_int_vs_enum(env, a.sub, b.sub)
    elif a.kind == b.kind == 'tuple':
        for x, y in zip(a.subs, b.subs):
            box_int_vs_enum(env, x, y)


def nested_sets(a, b):
    """symbolic 'value set of a is inside value set of b' for the pairings compatible() is written
    to support; None where no completeness claim is made"""
    ka, kb = a.kind, b.kind
    if ka == kb == 'double' or (ka, kb) == ('int', 'double') or (ka, kb) == ('int', 'int'):
        return M.And(b.lo <= a.lo, a.hi <= b.hi)
    if ka == 'int' and kb == 'enum':
        vals = set(b.members.values())
        return M.And(*[M.Or(M.Not(M.And(a.lo <= i, i <= a.hi)), i in vals) for i in range(-9, 10)])
    if ka == 'int' and kb == 'bool':
        return M.And(a.lo >= 0, a.hi <= 1)
    if ka == kb == 'scaled' and a.scale == b.scale:
        return M.And(b.klo <= a.klo, a.khi <= b.khi)
    if (ka, kb) == ('scaled', 'double'):
        return M.And(b.lo <= a.lo, a.hi <= b.hi)
    if ka == kb == 'enum':
        return all(b.members.get(n) == v for n, v in a.members.items())
    if ka == kb == 'bool':
        return True
    if ka == kb == 'string':
        return M.And(b.min <= a.min, a.max <= b.max, (not a.utf8) or b.utf8)
    if ka == kb == 'blob':
        return M.And(b.min <= a.min, a.max <= b.max)
    if ka == kb == 'array':
        inner = nested_sets(a.sub, b.sub)
        return None if inner is None else M.And(b.min <= a.min, a.max <= b.max, inner)
    return None
