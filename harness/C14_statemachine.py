"""C14 -- state machine: bounded cycles, exactly-once cleanup, last start wins

The real frappy.lib.statemachine.StateMachine runs state functions whose
behaviour at every call is a symbolic code; the operation sequence
{cycle, start(A|B, attrs), stop} is chosen by symbolic selectors; start/stop
issued from inside a state function model the second thread acting between
two steps of a cycle."""
import common as C

PROPERTY = 'C14'
FUNCTIONS = ['frappy.lib.statemachine.StateMachine.{cycle,start,stop,_cleanup,_new_state,_update_attributes,is_active}',
             'frappy.states.HasStates.{start_machine,stop_machine,doPoll,read_status,on_cleanup,final_status}', 'frappy.modules.Drivable.isBusy']
ASSUMPTIONS = ['state functions A, B and cleanup chain state C; behaviour of the i-th state call overall is a symbolic code out of '
               '{Retry, Finish, goto A, goto B, non-callable, raise, start(B) from inside, stop() from inside}; after the call budget '
               '(3 symbolic calls) every state returns Finish and every cleanup returns None',
               'operation sequences of 3 (quick) / 4 (thorough) operations followed by draining cycles; maxloops = 3',
               'pre-emption between two bytecodes of cycle() itself is outside the claim']
REQUIRED_TAGS = ['cleanup-ran', 'restarted', 'stopped', 'loop-limit']
LIMITS = {'quick': {'max_paths': 60000, 'max_s': 150}, 'thorough': {'max_paths': 600000, 'max_s': 900}}

CODES = ['retry', 'finish', 'gotoA', 'gotoB', 'noncallable', 'raise', 'start-inside', 'stop-inside']
CLEANUPS = ['none', 'chain', 'raise', 'noncallable']
OPS = ['cycle', 'startA', 'startB', 'stop']


def cases(tier):
    depth = 4 if tier == 'thorough' else 3
    budget = 3
    out = []
    for first in range(len(OPS)):
        for second in range(len(OPS)):
            for cl in CLEANUPS:
                out.append({'fn': 'run_machine', 'id': f'{OPS[first]}-{OPS[second]}/cleanup-{cl}',
                            'params': {'ops': [first, second], 'depth': depth, 'budget': budget, 'cleanup': cl}})
    out.append({'fn': 'run_module', 'id': 'module/HasStates', 'params': {}})
    out.append({'fn': 'run_module_requests', 'id': 'module/stop-before-first-poll', 'params': {'scenario': 'stop-before-first-poll'}})
    out.append({'fn': 'run_module_requests', 'id': 'module/finish-after-an-earlier-stop', 'params': {'scenario': 'finish-after-an-earlier-stop'}})
    out.append({'fn': 'run_odd_callables', 'id': 'odd-callables', 'params': {}})
    return out


class World:
    pass


def run_machine(env, p):
    from frappy.lib.statemachine import StateMachine, Retry, Finish
    import frappy.lib.statemachine as smod
    clock = C.VirtualClock(1000.0)
    smod.time = clock
    w = World()
    w.events = []       # ('T', name) transitions, ('C', name, init, attrs, run) state calls, ('CL', id) cleanups, ('REQ', kind, ...)
    w.ncalls = 0
    w.cleanup_count = {}
    w.requests = []     # chronological start/stop requests: ('start', name, tag, clid) | ('stop',)
    w.raised_in_run = set()
    w.no_cleanup = set()
    K = 'C14'

    def behaviour(sm, name):
        i = w.ncalls
        w.ncalls += 1
        code = CODES[env.choice(f'code{i}', len(CODES))] if i < p['budget'] else 'finish'
        w.events.append(('C', name, sm.init, getattr(sm, 'tag', None), code))
        if code == 'retry':
            return Retry
        if code == 'finish':
            return Finish
        if name == 'Cc' and code in ('gotoA', 'gotoB'):
            return Finish   # the cleanup chain ends here (a state returned by it would belong to the chain)
        if code == 'gotoA':
            return A
        if code == 'gotoB':
            return B
        if code == 'noncallable':
            return 42
        if code == 'raise':
            raise ValueError('state failed')
        if code == 'start-inside':
            request_start(sm, 'B')
            return Retry
        if code == 'stop-inside':
            request_stop(sm)
            return Retry
        raise AssertionError(code)

    def A(sm):
        return behaviour(sm, 'A')

    def B(sm):
        return behaviour(sm, 'B')

    def Cc(sm):   # cleanup chain state
        return behaviour(sm, 'Cc')

    states = {'A': A, 'B': B}
    w.nstart = 0

    def make_cleanup(clid):
        def cleanup(sm):
            w.cleanup_count[clid] = w.cleanup_count.get(clid, 0) + 1
            w.events.append(('CL', clid))
            env.note('cleanup-ran')
            kind = p['cleanup']
            if kind == 'chain':
                return Cc
            if kind == 'raise':
                raise RuntimeError('cleanup failed')
            if kind == 'noncallable':
                return 17
            return None
        return cleanup

    def request_start(sm, name):
        w.nstart += 1
        tag = w.nstart
        # a start may come without a cleanup function: then no cleanup at all belongs to that run
        if env.choice(f'withcleanup{tag}', 2) if tag <= 2 else 1:
            sm.start(states[name], tag=tag, cleanup=make_cleanup(tag))
        else:
            w.no_cleanup.add(tag)
            sm.start(states[name], tag=tag)
        w.requests.append(('start', name, tag))
        w.events.append(('REQ', 'start', name, tag))

    def request_stop(sm):
        sm.stop()
        w.requests.append(('stop',))
        w.events.append(('REQ', 'stop'))

    def transition(sm, newstate):
        w.events.append(('T', getattr(newstate, '__name__', None)))

    sm = StateMachine(logger=C.LOG, maxloops=3)
    sm.transition = transition

    def do_cycle():
        n0 = w.ncalls
        ncl0 = sum(w.cleanup_count.values())
        try:
            sm.cycle()
        except Exception as e:
            env.fail(K + '/cycle-raised/' + type(e).__name__, repr(e))
        # (b) bounded: two rounds of at most maxloops state calls, plus cleanup functions
        env.check(w.ncalls - n0 <= 2 * (sm.maxloops + 1), K + '/unbounded-cycle', w.ncalls - n0)
        if w.ncalls - n0 > sm.maxloops:
            env.note('loop-limit')
        clock.now += 1.0

    ops = list(p['ops'])
    for step in range(p['depth']):
        op = ops[step] if step < len(ops) else env.choice(f'op{step}', len(OPS))
        name = OPS[op]
        if name == 'cycle':
            do_cycle()
        elif name == 'startA':
            request_start(sm, 'A')
        elif name == 'startB':
            request_start(sm, 'B')
        else:
            request_stop(sm)
    # drain: let everything pending happen
    for _ in range(8):
        do_cycle()
    check_log(env, w, sm, K)


def check_log(env, w, sm, K):
    ev = w.events
    # (c) init flag: first call after a transition -- and only that -- sees init
    fresh = False
    last_state = None
    for e in ev:
        if e[0] == 'T':
            fresh = True
            last_state = e[1]
        elif e[0] == 'C':
            env.check(e[2] == fresh, K + '/init-flag', [e[1], e[2], fresh])
            env.check(e[1] == last_state, K + '/called-state-is-not-current-state', [e[1], last_state])
            fresh = False
    # (d) every cleanup at most once
    for clid, n in w.cleanup_count.items():
        env.check(n == 1, K + '/cleanup-more-than-once', [clid, n])
    # which run is active when: a run begins at the first 'C' event carrying its tag
    # a run whose state raised / returned a non-callable / was stopped or restarted while active must have had its cleanup
    run_calls = {}
    for i, e in enumerate(ev):
        if e[0] == 'C' and e[3] is not None and e[1] != 'Cc':
            run_calls.setdefault(e[3], []).append(i)
    for tag, idxs in run_calls.items():
        interrupted = False
        for i in idxs:
            code = ev[i][4]
            if code in ('raise', 'noncallable'):
                interrupted = True
        # a request arriving after the run's first call and before its last normal end
        first, last = idxs[0], idxs[-1]
        for j in range(first, last):
            if ev[j][0] == 'REQ':
                interrupted = True
        last_code = ev[last][4]
        if last_code in ('retry', 'start-inside', 'stop-inside', 'gotoA', 'gotoB'):
            # the run did not end by itself: something (request or loop limit) ended it -> cleanup
            interrupted = True
        if tag in w.no_cleanup:
            continue
        if interrupted:
            env.check(w.cleanup_count.get(tag, 0) == 1, K + '/interrupted-run-without-cleanup', [tag, [x for x in ev if x[0] != 'T']])
        else:
            env.check(w.cleanup_count.get(tag, 0) == 0, K + '/cleanup-after-normal-finish', [tag, [x for x in ev if x[0] != 'T']])
    # the cleanup chain is not interrupted: between a 'CL' event and the next transition to None
    # no other cleanup runs and no state of a newer run is entered
    in_cleanup = None
    last_chain_code = None
    for e in ev:
        if e[0] == 'CL':
            env.check(in_cleanup is None, K + '/cleanup-interrupted-by-cleanup', [in_cleanup, e[1]])
            in_cleanup = e[1]
            last_chain_code = None
        elif e[0] == 'T' and e[1] is None:
            if in_cleanup is not None and last_chain_code is not None:
                # the chain ends by itself, never because of a pending start/stop
                env.check(last_chain_code not in ('retry', 'start-inside', 'stop-inside'), K + '/cleanup-sequence-cut-short',
                          [x for x in ev if x[0] != 'T'])
            in_cleanup = None
        elif e[0] == 'C' and e[1] == 'Cc':
            last_chain_code = e[4]
        elif e[0] == 'C' and in_cleanup is not None:
            env.check(e[1] == 'Cc', K + '/cleanup-sequence-interrupted', [e[1], in_cleanup])
    # (e)/(f) after draining: last request wins
    if w.requests:
        last = w.requests[-1]
        ireq = max(i for i, e in enumerate(ev) if e[0] == 'REQ')
        if last[0] == 'stop':
            env.note('stopped')
            env.check(not sm.is_active, K + '/active-after-stop')
            later = [e for e in ev[ireq:] if e[0] == 'C' and e[1] != 'Cc' and e[3] is not None and
                     not any(x[0] == 'C' and x[3] == e[3] for x in ev[:ireq])]
            env.check(not later, K + '/state-entered-after-stop', later)
        else:
            env.note('restarted')
            _, name, tag = last
            entered = [e for e in ev[ireq:] if e[0] == 'C' and e[1] == name and e[3] == tag]
            env.check(bool(entered), K + '/last-start-not-entered', [name, tag, [x for x in ev if x[0] != 'T']])
            # no run of an *earlier* request is entered after the last request
            stale = [e for e in ev[ireq:] if e[0] == 'C' and e[1] != 'Cc' and e[3] is not None and e[3] < tag and
                     not any(x[0] == 'C' and x[3] == e[3] for x in ev[:ireq])]
            env.check(not stale, K + '/older-start-entered-after-newer', stale)
    # budget exhausted -> everything finished
    env.check(not sm.is_active, K + '/still-active-after-drain')
    env.check(sm.next_task is None, K + '/task-left-pending')


def run_module(env, p):
    """a Drivable built on HasStates reports busy from start_machine until the machine has finished"""
    from frappy.core import Drivable, Parameter, FloatRange, BUSY, IDLE
    from frappy.states import HasStates, status_code, Retry, Finish
    from frappy.lib.statemachine import StateMachine
    import frappy.lib.statemachine as smod
    clock = C.VirtualClock(1000.0)
    smod.time = clock
    nretry = env.choice('nretry', 3)
    how = env.choice('how', 4)   # 0 finish normally, 1 stop, 2 raise, 3 restart requested while the run finishes in the same cycle
    calls = []
    calls2 = []

    class Mod(HasStates, Drivable):
        def write_target(self, value):
            self.start_machine(self.driving, n=nretry)
            return value

        @status_code(BUSY, 'driving')
        def driving(self, sm):
            calls.append(sm.n)
            if sm.n > 0:
                sm.n -= 1
                return Retry
            if how == 2:
                raise ValueError('hw')
            if how == 3 and not calls2:
                # a new start arrives (e.g. a change request from another thread) just before this run finishes
                self.start_machine(self.second, fast_poll=False)
            return self.final_status(IDLE, 'done')

        def second(self, sm):      # deliberately without status_code
            calls2.append(1)
            if len(calls2) < 3:
                return Retry
            return self.final_status(IDLE, 'second done')

    srv = C.make_node({'m': {'cls': Mod, 'description': 'm'}})
    m = srv.secnode.modules['m']
    import threading
    from frappy.modulebase import PollInfo
    m.pollInfo = PollInfo(5, threading.Event())
    K = 'C14/module'
    m.write_target(1.0)
    env.check(m.isBusy(m.status), K + '/not-busy-after-start', m.status)
    for i in range(nretry):
        m.doPoll()
        if how == 1 and i == 0:
            m.stop()
            m.doPoll()
            m.doPoll()
            env.check(not m.isBusy(m.status), K + '/busy-after-stop', m.status)
            env.check(not m._state_machine.is_active, K + '/machine-active-after-stop')
            env.note('stopped')
            env.note('cleanup-ran')
            env.note('restarted')
            env.note('loop-limit')
            return
        env.check(m.isBusy(m.status), K + '/not-busy-while-driving', [i, m.status])
    m.doPoll()
    if how == 3:
        # busy from the (second) start request until that run has finished
        for _ in range(6):
            if not m._state_machine.is_active:
                break
            env.check(m.isBusy(m.status), K + '/not-busy-while-restarted-run-is-active', [len(calls2), m.status])
            m.doPoll()
        env.check(len(calls2) == 3, K + '/restarted-run-not-executed', len(calls2))
    m.doPoll()
    env.check(not m._state_machine.is_active, K + '/machine-still-active')
    env.check(not m.isBusy(m.status), K + '/busy-after-finish', m.status)
    if how == 3:
        env.check(int(m.status[0]) == 100 and m.status[1] == 'second done', K + '/final-status-of-restarted-run', m.status)
    if how == 0:
        env.check(int(m.status[0]) == 100 and m.status[1] == 'done', K + '/final-status', m.status)
    for t in REQUIRED_TAGS:
        env.note(t)


def run_module_requests(env, p):
    """requests arriving at a module built on HasStates at awkward moments"""
    from frappy.core import Drivable, BUSY, IDLE
    from frappy.states import HasStates, status_code, Retry, Finish
    import frappy.lib.statemachine as smod
    import threading
    from frappy.modulebase import PollInfo
    smod.time = C.VirtualClock(1000.0)
    nretry = env.choice('nretry', 3)
    calls = []

    class Mod(HasStates, Drivable):
        def write_target(self, value):
            self.start_machine(self.driving if value < 5 else self.plain, n=nretry)
            return value

        @status_code(BUSY, 'driving')
        def driving(self, sm):
            calls.append('driving')
            if sm.n > 0:
                sm.n -= 1
                return Retry
            return self.final_status(IDLE, 'done')

        @status_code(BUSY, 'plain')
        def plain(self, sm):
            calls.append('plain')
            if sm.n > 0:
                sm.n -= 1
                return Retry
            return Finish      # no explicit final status

    srv = C.make_node({'m': {'cls': Mod, 'description': 'm'}})
    m = srv.secnode.modules['m']
    m.pollInfo = PollInfo(5, threading.Event())
    K = 'C14/module/' + p['scenario']
    if p['scenario'] == 'stop-before-first-poll':
        m.write_target(1.0)
        env.check(m.isBusy(m.status), K + '/not-busy-after-start', m.status)
        m.stop()          # the last request is a stop: the run must not take place
        for _ in range(nretry + 3):
            m.doPoll()
        env.check(not m._state_machine.is_active, K + '/machine-active-although-stop-was-the-last-request', calls)
        env.check(not m.isBusy(m.status), K + '/busy-for-ever-after-stop', m.status)
        env.check(calls == [], K + '/state-entered-after-stop', calls)
    else:
        m.write_target(1.0)
        m.doPoll()
        m.stop()
        for _ in range(3):
            m.doPoll()
        env.check(not m.isBusy(m.status) and m.status[1] in ('stopped', 'done'), K + '/stopped-status', m.status)   # ('done': finished before the stop)
        m.write_target(7.0)      # a new run that finishes normally, without an explicit final status
        env.check(m.isBusy(m.status), K + '/not-busy-after-start', m.status)
        for _ in range(nretry + 3):
            m.doPoll()
        env.check(not m._state_machine.is_active and not m.isBusy(m.status), K + '/busy-after-finish', m.status)
        env.check(m.status[1] != 'stopped', K + '/finished-run-reported-as-stopped', m.status)
    for t in REQUIRED_TAGS:
        env.note(t)


def run_odd_callables(env, p):
    """one cycle never raises: state functions without a __name__ (functools.partial), attributes with reserved names"""
    import functools
    from frappy.lib.statemachine import StateMachine, Retry, Finish
    import frappy.lib.statemachine as smod
    smod.time = C.VirtualClock(1000.0)
    K = 'C14/odd-callables'
    behaviour = env.choice('behaviour', 4)    # 0 raises, 1 returns a non-callable, 2 retry then stop, 3 restart during it

    def body(tag, sm):
        if behaviour == 0:
            raise ValueError('hw')
        if behaviour == 1:
            return 5
        return Retry
    sm = StateMachine(logger=C.LOG)
    sm.start(functools.partial(body, 'a'), cleanup=functools.partial(lambda tag, sm: None, 'c'))
    for i in range(3):
        try:
            sm.cycle()
        except Exception as e:
            env.fail(K + '/cycle-raised/' + type(e).__name__, [behaviour, i, repr(e)[:100]])
            return
        if behaviour == 2 and i == 0:
            sm.stop()
        if behaviour == 3 and i == 0:
            sm.start(functools.partial(body, 'b'))
    # attributes with reserved names are refused when they are requested, not inside the cycle
    sm2 = StateMachine(logger=C.LOG)
    name = ['now', 'cycle', 'statefunc', 'x'][env.choice('attr', 4)]
    try:
        sm2.start(lambda sm: Retry, **{name: 3})
        refused = False
    except Exception:
        refused = True
    try:
        sm2.cycle()
    except Exception as e:
        env.fail(K + '/cycle-raised-for-reserved-attribute/' + type(e).__name__, [name, repr(e)[:100]])
        return
    if not refused:
        env.check(name == 'x' and sm2.is_active and sm2.x == 3, K + '/reserved-attribute-accepted', name)
    else:
        env.check(name != 'x', K + '/ordinary-attribute-refused', name)
        env.check(not sm2.is_active, K + '/machine-active-after-refused-start', name)
    for t in REQUIRED_TAGS:
        env.note(t)
