"""C01 -- CrossHair part: symbolic strings for string / enum-name leaves"""
PROPERTY = 'C01'
FUNCTIONS = ['frappy.datatypes.{StringType,EnumType,TupleOf,ArrayOf,BoolType}.{__call__,validate,import_value,from_string,to_string}']
ASSUMPTIONS = ['CrossHair: symbolic str of length <= 4 (any code point), symbolic minchars/maxchars in 0..5; verdicts other than '
               '"Confirmed over all paths" are reported as inconclusive']


def cases(tier):
    return []


def xh_conditions(tier):
    return [{'id': 'C01/xh/string-validate', 'file': 'xh_c01', 'function': 'string_validate'},
            {'id': 'C01/xh/enum-by-name', 'file': 'xh_c01', 'function': 'enum_by_name'},
            {'id': 'C01/xh/string-is-no-sequence', 'file': 'xh_c01', 'function': 'string_is_no_sequence'},
            {'id': 'C01/xh/bool-from-string', 'file': 'xh_c01', 'function': 'bool_from_string'}]
