"""C07 -- CrossHair part: symbolic strings (see engine/xh.py, harness/xh/)"""
PROPERTY = 'C07'
FUNCTIONS = []
ASSUMPTIONS = ['CrossHair conditions: symbolic str arguments of bounded length (see the contract of each function in harness/xh); verdicts other '
               'than "Confirmed over all paths" are inconclusive for that condition']


def cases(tier):
    return []


def xh_conditions(tier):
    return [{'id': 'C07/xh/codec-inverse', 'file': 'xh_c07', 'function': 'codec_inverse'},
            {'id': 'C07/xh/segmentation', 'file': 'xh_c07', 'function': 'segmentation'}]
