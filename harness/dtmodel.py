"""datatype shapes with symbolic limits, candidates with symbolic payloads and
an independent oracle of SECoP value sets.  Shared by C01, C02, C03.

A *shape* is a JSON-able description of a datatype tree; everything numeric in
it (limits, lengths) becomes a solver variable when the shape is built.  A
*candidate* is a JSON-able description of a value ("kind tags"); numeric
payloads become solver variables.
"""
import math
import sys

try:
    import symx as sx
except ImportError:   # replay on the real tree: engine dir is on sys.path as well
    sx = None

FMAX = sys.float_info.max
BOX = 1e300
UNLIMITED = 1 << 64
KBOX = 8      # grid index box of scaled integers (mixed int/real queries diverge on wide boxes)


def And(*xs):
    return sx.And(*xs)


def Or(*xs):
    return sx.Or(*xs)


def Not(x):
    return sx.Not(x)


def Implies(a, b):
    return sx.Implies(a, b)


def is_sym(x):
    return sx.is_sym(x)


def pytype(x):
    return x.PYTYPE if is_sym(x) else type(x)


def absv(x):
    return abs(x)


def oracle_floor(x):
    """floor of a real (harness side, independent of the code's int()/round())"""
    if is_sym(x):
        return x.__floor__()
    return math.floor(x)


def oracle_round_half_even(x):
    n = oracle_floor(x)
    f = x - n
    if is_sym(f) or is_sym(n):
        return sx.If(f < 0.5, n, sx.If(f > 0.5, n + 1, sx.If((n % 2) == 0, n, n + 1)))
    if f < 0.5:
        return n
    if f > 0.5:
        return n + 1
    return n if n % 2 == 0 else n + 1


class Spec:
    def __init__(self, kind, **kw):
        self.kind = kind
        self.__dict__.update(kw)


# --------------------------------------------------------------------------
# shapes

def build(env, shape, tag='d'):
    """instantiate the frappy datatype of <shape> with symbolic limits; returns Spec"""
    from frappy import datatypes as dt
    k = shape['k']
    if k == 'double':
        rel = shape.get('rel', 1.2e-7)
        kw = {}
        if shape.get('limits', 'sym') == 'sym':
            lo = env.real(tag + '.lo', -BOX, BOX)
            hi = env.real(tag + '.hi', -BOX, BOX)
            if shape.get('degenerate'):
                env.assume(lo == hi)
            else:
                env.assume(lo <= hi)
        else:
            lo, hi = -FMAX, FMAX
        if shape.get('abs') == 'sym':
            ares = env.real(tag + '.abs', 0, 1e6)
            kw['absolute_resolution'] = ares
        else:
            ares = shape.get('abs', 0.0)
            if ares:
                kw['absolute_resolution'] = ares
        if rel != 1.2e-7:
            kw['relative_resolution'] = rel
        if shape.get('limits', 'sym') == 'sym':
            d = dt.FloatRange(lo, hi, **kw)
        else:
            d = dt.FloatRange(**kw)
        return Spec(k, dt=d, lo=lo, hi=hi, rel=rel, abs=ares)
    if k == 'int' and 'fixed' in shape:
        lo, hi = shape['fixed']
        return Spec(k, dt=dt.IntRange(lo, hi), lo=lo, hi=hi, big=shape.get('big', False))
    if k == 'int':
        lo = env.int(tag + '.lo', -UNLIMITED, UNLIMITED)
        hi = env.int(tag + '.hi', -UNLIMITED, UNLIMITED)
        if shape.get('degenerate'):
            env.assume(lo == hi)
        else:
            env.assume(lo <= hi)
        return Spec(k, dt=dt.IntRange(lo, hi), lo=lo, hi=hi, big=shape.get('big', False))
    if k == 'scaled' and 'fixed' in shape:
        # limits far from zero as concrete grid indices (symbolic indices of that size make z3 diverge)
        s = shape['scale']
        klo, khi = shape['fixed']
        lo, hi = klo * s, khi * s
        return Spec(k, dt=dt.ScaledInteger(s, lo, hi), scale=s, klo=klo, khi=khi, lo=lo, hi=hi)
    if k == 'scaled':
        s = shape['scale']
        klo = env.int(tag + '.klo', -KBOX, KBOX)
        khi = env.int(tag + '.khi', -KBOX, KBOX)
        if shape.get('degenerate'):
            env.assume(klo == khi)
        else:
            env.assume(klo <= khi)
        lo, hi = klo * s, khi * s
        return Spec(k, dt=dt.ScaledInteger(s, lo, hi), scale=s, klo=klo, khi=khi, lo=lo, hi=hi)
    if k == 'bool':
        return Spec(k, dt=dt.BoolType())
    if k == 'enum':
        members = shape['members']
        return Spec(k, dt=dt.EnumType('e', **members), members=members)
    if k == 'string' and shape.get('unlimited'):
        mn = env.int(tag + '.minchars', 0, 4)
        utf8 = bool(shape.get('utf8'))
        return Spec(k, dt=dt.StringType(mn, UNLIMITED, isUTF8=utf8), min=mn, max=UNLIMITED, utf8=utf8)
    if k == 'string':
        mn = env.int(tag + '.minchars', 0, 4)
        mx = env.int(tag + '.maxchars', 0, 5)
        env.assume(mn <= mx)
        utf8 = bool(shape.get('utf8'))
        return Spec(k, dt=dt.StringType(mn, mx, isUTF8=utf8), min=mn, max=mx, utf8=utf8)
    if k == 'blob' and 'fixed' in shape:
        mn, mx = shape['fixed']
        return Spec(k, dt=dt.BLOBType(mn, mx), min=mn, max=mx)
    if k == 'blob':
        mn = env.int(tag + '.minbytes', 0, 4)
        mx = env.int(tag + '.maxbytes', 0, 5)
        env.assume(mn <= mx)
        return Spec(k, dt=dt.BLOBType(mn, mx), min=mn, max=mx)
    if k == 'array':
        sub = build(env, shape['of'], tag + '.m')
        mn = env.int(tag + '.minlen', 0, 4)
        mx = env.int(tag + '.maxlen', 0, 5)
        env.assume(mn <= mx)
        return Spec(k, dt=dt.ArrayOf(sub.dt, mn, mx), sub=sub, min=mn, max=mx)
    if k == 'tuple':
        subs = [build(env, s, f'{tag}.{i}') for i, s in enumerate(shape['of'])]
        return Spec(k, dt=dt.TupleOf(*[s.dt for s in subs]), subs=subs)
    if k == 'limits':
        # frappy's own tuple of (min, max) with min <= max, used for <parameter>_limits
        sub = build(env, {'k': 'double'}, tag + '.m')
        return Spec('tuple', dt=dt.LimitsType(sub.dt), subs=[sub, sub], limits=True)
    if k == 'struct':
        subs = {n: build(env, s, f'{tag}.{n}') for n, s in shape['of'].items()}
        opt = shape.get('optional')
        d = dt.StructOf(optional=opt, **{n: s.dt for n, s in subs.items()})
        return Spec(k, dt=d, subs=subs, optional=list(subs) if opt is None else list(opt))
    raise ValueError(k)


# --------------------------------------------------------------------------
# candidates

LEAF_TOKENS = {
    'str12': '12', 'strab': 'ab', 'str': 'x', 'empty': '', 'none': None, 'list0': [], 'dict0': {},
    'nan': math.nan, 'inf': math.inf, '-inf': -math.inf, 'hugeint': 10 ** 400,
    'list1': [1], 'dict1': {'a': 1}, 'bytes': b'ab',
}
NUMERIC_TAGS = ('int', 'float', 'bool')


class Cand:
    """offered value + its description"""
    def __init__(self, desc, value, parts=None):
        self.desc = desc
        self.value = value
        self.parts = parts   # list / dict of Cand for containers


def make(env, desc, tag='v', box=None):
    if isinstance(desc, str):
        if box and box.get('near') is not None and desc in ('int', 'float'):
            c, w = box['near']
            return Cand(desc, env.int(tag, c - w, c + w) if desc == 'int' else env.real(tag, c - w, c + w))
        if box and box.get('i') and desc == 'int':
            return Cand(desc, env.int(tag, -box['i'], box['i']))
        if box and box.get('f') and desc == 'float':
            return Cand(desc, env.real(tag, -box['f'], box['f']))
        if desc == 'int':
            return Cand(desc, env.int(tag, -(1 << 70), 1 << 70))
        if desc == 'bigint':
            # beyond 2**53 and odd: not representable as a double (exposes conversions through float on the witness replay)
            v = env.int(tag, 2 ** 53 + 1, 2 ** 63)
            env.assume(v % 2 == 1)
            return Cand('int', v)
        if desc == 'smallint':
            return Cand('int', env.int(tag, 0, 6))
        if desc == 'float':
            return Cand(desc, env.real(tag, -BOX, BOX))
        if desc == 'bool':
            return Cand(desc, env.bool(tag))
        if desc.startswith('lit:'):
            import ast
            return from_literal(ast.literal_eval(desc[4:]))
        return Cand(desc, LEAF_TOKENS[desc])
    kind = desc[0]
    if kind == 'list':
        parts = [make(env, d, f'{tag}[{i}]', box) for i, d in enumerate(desc[1])]
        return Cand('list', [p.value for p in parts], parts)
    if kind == 'dict':
        parts = {n: make(env, d, f'{tag}.{n}', box) for n, d in desc[1].items()}
        return Cand('dict', {n: p.value for n, p in parts.items()}, parts)
    raise ValueError(desc)


def from_literal(v):
    if isinstance(v, list):
        parts = [from_literal(x) for x in v]
        return Cand('list', [p.value for p in parts], parts)
    if isinstance(v, dict):
        parts = {k: from_literal(x) for k, x in v.items()}
        return Cand('dict', {k: p.value for k, p in parts.items()}, parts)
    if v is None:
        return Cand('none', None)
    return Cand('lit', v)


def valid_value(env, spec, tag):
    """a symbolic member of the value set of spec (internal representation)"""
    k = spec.kind
    if k == 'double':
        v = env.real(tag, -BOX, BOX)
        env.assume(And(spec.lo <= v, v <= spec.hi))
        return v
    if k == 'int':
        v = env.int(tag)
        env.assume(And(spec.lo <= v, v <= spec.hi))
        if getattr(spec, 'big', False):
            env.assume(And(v > 2 ** 53, v % 2 == 1))
        return v
    if k == 'scaled':
        n = env.int(tag)
        env.assume(And(spec.klo <= n, n <= spec.khi))
        return n * spec.scale
    if k == 'bool':
        return env.bool(tag)
    if k == 'enum':
        vals = sorted(spec.members.values())
        return spec.dt._enum[vals[0]]
    if k == 'string':
        n = env.choice(tag, 4)
        s = 'abc'[:n]
        env.assume(And(spec.min <= n, n <= spec.max))
        return s
    if k == 'blob':
        n = env.choice(tag, 4)
        env.assume(And(spec.min <= n, n <= spec.max))
        return bytes([0, 255, 10])[:n]
    if k == 'array':
        n = env.choice(tag + '.len', 4)
        env.assume(And(spec.min <= n, n <= spec.max))
        return tuple(valid_value(env, spec.sub, f'{tag}[{i}]') for i in range(n))
    if k == 'tuple':
        return tuple(valid_value(env, s, f'{tag}[{i}]') for i, s in enumerate(spec.subs))
    if k == 'struct':
        return {n: valid_value(env, s, f'{tag}.{n}') for n, s in spec.subs.items()}
    raise ValueError(k)


# --------------------------------------------------------------------------
# oracle

def eq(a, b):
    """fork-free structural equality (symbolic where numbers are symbolic)"""
    from frappy.lib.enum import EnumMember
    if isinstance(a, EnumMember):
        a = a.value
    if isinstance(b, EnumMember):
        b = b.value
    if isinstance(a, (tuple, list)) or isinstance(b, (tuple, list)):
        if not isinstance(a, (tuple, list)) or not isinstance(b, (tuple, list)) or len(a) != len(b):
            return False
        return And(*[eq(x, y) for x, y in zip(a, b)]) if a else True
    if isinstance(a, dict) or isinstance(b, dict):
        if not isinstance(a, dict) or not isinstance(b, dict) or set(a) != set(b):
            return False
        return And(*[eq(a[k], b[k]) for k in a]) if a else True
    if is_sym(a) or is_sym(b):
        if isinstance(a, (str, bytes, type(None))) or isinstance(b, (str, bytes, type(None))):
            return False
        return a == b
    if isinstance(a, float) and a != a:
        return isinstance(b, float) and b != b
    if isinstance(a, (str, bytes)) or isinstance(b, (str, bytes)):
        return type(a) is type(b) and a == b
    if a is None or b is None:
        return a is b
    return a == b


def is_number(c):
    return c.desc in NUMERIC_TAGS or (c.desc == 'lit' and isinstance(c.value, (int, float))
                                      and not (isinstance(c.value, float) and not math.isfinite(c.value)))


def as_real(x):
    if is_sym(x):
        return x.to_real()
    return x


def integral(x):
    """symbolic 'x has no fractional part'"""
    if pytype(x) in (int, bool):
        return True
    n = oracle_floor(x)
    return n == x


def judge_accept(env, spec, cand, r, key, wire=True, limits=True, prev=None):
    """assertions on a value <r> returned for the offered candidate.

    wire=True: <cand> is the JSON value, r the result of import_value+validate
    limits=False: driver path (__call__), limits of numeric leaves are not enforced there
    """
    k = spec.kind
    K = f'{key}/{k}'
    if k == 'double':
        if cand.desc in ('inf', '-inf'):
            # documented: +-inf is mapped to the largest double
            env.check(eq(r, math.copysign(FMAX, cand.value)), K + '/inf-not-mapped-to-max')
            if limits:
                env.check(And(spec.lo <= r, r <= spec.hi), K + '/out-of-set')
            return
        if not env.check(is_number(cand), K + f'/accepted-{cand.desc}'):
            return
        x = as_real(cand.value)
        env.check(pytype(r) is float, K + '/result-not-float')
        prec = sx_max(absv(x * spec.rel), spec.abs)
        if limits:
            env.check(And(spec.lo <= r, r <= spec.hi), K + '/out-of-set')
            env.check(absv(r - x) <= prec, K + '/denotes-other-value')
        else:
            env.check(r == x, K + '/denotes-other-value')
        return
    if k == 'int':
        if not env.check(is_number(cand), K + f'/accepted-{cand.desc}'):
            return
        x = cand.value
        env.check(pytype(r) is int, K + '/result-not-int')
        env.check(integral(x), K + '/fraction-truncated')
        env.check(r == x, K + '/denotes-other-value')
        if limits:
            env.check(And(spec.lo <= r, r <= spec.hi), K + '/out-of-set')
        return
    if k == 'scaled':
        if not env.check(is_number(cand), K + f'/accepted-{cand.desc}'):
            return
        x = cand.value
        s = spec.scale
        env.check(pytype(r) is float, K + '/result-not-float')
        kk = oracle_round_half_even(r / s)
        env.check(kk * s == r, K + '/off-grid')
        if limits:
            env.check(And(spec.klo <= kk, kk <= spec.khi), K + '/out-of-set')
        if wire:
            # the wire carries the integer
            env.check(integral(x), K + '/fraction-truncated')
            env.check(r == x * s, K + '/denotes-other-value')
        elif limits:
            env.check(absv(r - x) < s, K + '/denotes-other-value')
        else:
            env.check(absv(r - x) * 2 <= s * (1 + 1e-6), K + '/denotes-other-value')   # (1e-6: ties decided by IEEE rounding of the quotient)
        return
    if k == 'bool':
        if not env.check(is_number(cand), K + f'/accepted-{cand.desc}'):
            return
        x = cand.value
        env.check(pytype(r) is bool, K + '/result-not-bool')
        env.check(Or(x == 0, x == 1), K + '/out-of-set')
        env.check(eq(r, x == 1), K + '/denotes-other-value')
        return
    if k == 'enum':
        from frappy.lib.enum import EnumMember
        if not env.check(isinstance(r, EnumMember), K + '/result-not-member'):
            return
        if cand.desc in ('str', 'strab', 'str12', 'empty') or (cand.desc == 'lit' and isinstance(cand.value, str)):
            env.check(spec.members.get(cand.value) == r.value and r.name == cand.value, K + '/denotes-other-value')
            return
        if not env.check(is_number(cand), K + f'/accepted-{cand.desc}'):
            return
        env.check(r.value in spec.members.values(), K + '/out-of-set')
        env.check(cand.value == r.value, K + '/denotes-other-value')
        return
    if k == 'string':
        if not env.check(isinstance(cand.value, str), K + f'/accepted-{cand.desc}'):
            return
        s = cand.value
        env.check(isinstance(r, str) and r == s, K + '/denotes-other-value')
        env.check(And(spec.min <= len(s), len(s) <= spec.max), K + '/out-of-set-length')
        env.check('\0' not in s, K + '/out-of-set-nul')
        if not spec.utf8:
            env.check(s.isascii(), K + '/out-of-set-nonascii')
        return
    if k == 'blob':
        if wire:
            if not env.check(isinstance(cand.value, str), K + f'/accepted-{cand.desc}'):
                return
            strict = strict_b64(cand.value)
            if not env.check(strict is not None, K + '/undecodable-base64-accepted', cand.value):
                return
            want = strict
        else:
            if not env.check(isinstance(cand.value, bytes), K + f'/accepted-{cand.desc}'):
                return
            want = cand.value
        env.check(isinstance(r, bytes) and r == want, K + '/denotes-other-value')
        env.check(And(spec.min <= len(want), len(want) <= spec.max), K + '/out-of-set-length')
        return
    if k == 'array':
        if not env.check(cand.desc == 'list', K + f'/accepted-{cand.desc}'):
            return
        n = len(cand.parts)
        if not env.check(isinstance(r, tuple) and len(r) == n, K + '/length-changed'):
            return
        env.check(And(spec.min <= n, n <= spec.max), K + '/out-of-set-length')
        for i, (c, ri) in enumerate(zip(cand.parts, r)):
            judge_accept(env, spec.sub, c, ri, key, wire, limits, prev[i] if prev and i < len(prev) else None)
        return
    if k == 'tuple':
        if not env.check(cand.desc == 'list', K + f'/accepted-{cand.desc}'):
            return
        if not env.check(isinstance(r, tuple) and len(r) == len(cand.parts) == len(spec.subs), K + '/arity'):
            return
        for i, (sp, c, ri) in enumerate(zip(spec.subs, cand.parts, r)):
            judge_accept(env, sp, c, ri, key, wire, limits, prev[i] if prev and i < len(prev) else None)
        return
    if k == 'struct':
        if not env.check(cand.desc == 'dict', K + f'/accepted-{cand.desc}'):
            return
        given = {n: c for n, c in cand.parts.items() if c.desc != 'none'}
        if not env.check(set(given) <= set(spec.subs), K + '/unknown-member-accepted'):
            return
        if not env.check(isinstance(r, dict), K + '/result-not-dict'):
            return
        prev = prev or {}
        env.check(set(r) == set(given) | set(prev), K + '/member-set')
        mandatory = set(spec.subs) - set(spec.optional)
        env.check(mandatory <= set(r), K + '/mandatory-member-missing')
        for n, c in given.items():
            if n in r:
                judge_accept(env, spec.subs[n], c, r[n], key, wire, limits)
        for n, pv in prev.items():
            if n not in given and n in r:
                env.check(eq(r[n], pv), K + '/previous-member-changed')
        return
    raise ValueError(k)


def sx_max(a, b):
    if is_sym(a) or is_sym(b):
        return sx.If(a >= b, a, b)
    return max(a, b)


def strict_b64(s):
    """bytes if s is canonical RFC 4648 base64, else None (harness-side reference)"""
    import re
    import base64
    if not isinstance(s, str) or len(s) % 4 or not re.fullmatch(r'[A-Za-z0-9+/]*={0,2}', s):
        return None
    try:
        return base64.b64decode(s, validate=True)
    except Exception:
        return None
