"""C04 -- generated module classes: flag combinations chosen by symbolic selectors

The catalogue class of C04_requests.py fixes which flag goes with which
parameter.  Here the class is generated per path with type(): one numeric
parameter whose readonly / constant / export mode / limit parameters / check
hook / write method are chosen by selectors, datatype limits, dynamic limits,
hook threshold and payload are symbolic; the request addresses it by its wire
name or by one of the names it must NOT be reachable under."""
import dtmodel as M
import common as C

PROPERTY = 'C04'
FUNCTIONS = ['frappy.modulebase.HasAccessibles.__init_subclass__ on generated classes (type())', 'frappy.modulebase.Module.checkLimits',
             'frappy.params.{Parameter,Limit}', 'frappy.protocol.dispatcher.Dispatcher.{handle_change,_setParameterValue}']
ASSUMPTIONS = ['generated classes: one float or int parameter x {writable, readonly, constant} x export {default, False, custom with and without '
               'underscore} x limit parameters {none, _min, _max, _min+_max, _limits} x check hook {no, yes} x write method {yes, no}: all '
               'combinations by symbolic selectors; dynamic limits are moved by the driver to symbolic positions before the request',
               'one change request per path, addressed by the wire name or by the internal / default-style name']
REQUIRED_TAGS = ['gen/accepted', 'gen/refused', 'gen/unreachable']
LIMITS = {'quick': {'max_paths': 20000, 'max_s': 150}, 'thorough': {'max_paths': 200000, 'max_s': 600}}

ACCESS = ['writable', 'readonly', 'constant', 'cfg-writable']      # cfg-writable: readonly in the class, readonly=False in the configuration
EXPORT = ['default', 'false', 'custom-us', 'custom-plain']
LIMS = ['none', 'min', 'max', 'minmax', 'limits', 'limits+max']


def cases(tier):
    out = []
    for kind in ('float', 'int'):
        for acc in ACCESS:
            for lim in LIMS:
                if lim == 'limits+max' and acc in ('readonly', 'constant'):
                    continue
                if acc == 'cfg-writable' and lim not in ('none', 'minmax', 'limits+max'):
                    continue
                out.append({'fn': 'run_generated', 'id': f'generated/{kind}/{acc}/{lim}', 'params': {'kind': kind, 'access': acc, 'lim': lim}})
    return out


def run_generated(env, p):
    from frappy.core import Module, Parameter, FloatRange, IntRange
    from frappy.params import Limit
    from frappy.errors import RangeError
    kind, acc, lim = p['kind'], p['access'], p['lim']
    K = f'C04/generated/{kind}'
    if kind == 'float':
        lo = env.real('lo', -1000, 1000)
        hi = env.real('hi', -1000, 1000)
        x = env.real('x', -2000, 2000)
        thr = env.real('thr', -1000, 1000)
    else:
        lo = env.int('lo', -100, 100)
        hi = env.int('hi', -100, 100)
        x = env.int('x', -200, 200)
        thr = env.int('thr', -100, 100)
    env.assume(lo <= hi)
    dtype = FloatRange(lo, hi) if kind == 'float' else IntRange(lo, hi)
    export = EXPORT[env.choice('export', len(EXPORT))]
    hook = env.flag('hook')
    wm = env.flag('write-method')
    log = []
    kw = {'export': {'default': True, 'false': False, 'custom-us': '_zz', 'custom-plain': 'q'}[export]}
    if acc == 'constant':
        kw['constant'] = lo
    else:
        kw['readonly'] = acc in ('readonly', 'cfg-writable')
        kw['default'] = lo
    ns = {'p': Parameter('generated', dtype, **kw)}
    if lim in ('min', 'minmax'):
        ns['p_min'] = Limit()
    if lim in ('max', 'minmax'):
        ns['p_max'] = Limit()
    if lim in ('limits', 'limits+max'):
        ns['p_limits'] = Limit()
    if lim == 'limits+max':
        ns['p_max'] = Limit()
    bases = (Module,)
    if hook:
        def check_p(self, value):
            if value > thr:
                raise RangeError('above threshold')
        if lim == 'none':
            ns['check_p'] = check_p
        else:
            # a check method in the class that declares the limit parameters REPLACES the automatic limit check (documented);
            # declared in an ancestor both are applied
            bases = (type('GenBase', (Module,), {'check_p': check_p}),)
    if wm:
        def write_p(self, value):
            log.append(value)
            return None
        ns['write_p'] = write_p
    try:
        Gen = type('Gen', bases, ns)
        mcfg = {'cls': Gen, 'description': 'generated'}
        if acc == 'cfg-writable':
            mcfg['p'] = {'readonly': False}
        srv = C.make_node({'m': mcfg})
    except Exception as e:
        # a combination the framework refuses at class / module creation (e.g. limits for a constant) is not a request matter
        env.note('gen/class-refused')
        env.note('gen/accepted'), env.note('gen/refused'), env.note('gen/unreachable')
        env.log('class refused', acc, lim, type(e).__name__)
        return
    if srv.secnode.errors:
        env.note('gen/class-refused')
        env.note('gen/accepted'), env.note('gen/refused'), env.note('gen/unreachable')
        return
    mod = srv.secnode.modules['m']
    # the driver moves the dynamic limits
    dlo, dhi = lo, hi
    if lim != 'none':
        if kind == 'float':
            a = env.real('dlo', -1000, 1000)
            b = env.real('dhi', -1000, 1000)
        else:
            a = env.int('dlo', -100, 100)
            b = env.int('dhi', -100, 100)
        env.assume(M.And(lo <= a, a <= b, b <= hi))
        if lim in ('min', 'minmax'):
            mod.p_min = a
            dlo = a
        if lim in ('max', 'minmax'):
            mod.p_max = b
            dhi = b
        if lim == 'limits':
            mod.p_limits = (a, b)
            dlo, dhi = a, b
        if lim == 'limits+max':
            mod.p_max = b          # the limits pair keeps its default (the full range): the single limit is the narrower one
            dhi = b
    wire = {'default': '_p', 'false': None, 'custom-us': '_zz', 'custom-plain': 'q'}[export]
    names = ['_p', 'p', '_zz', 'q']
    addr = names[env.choice('addr', len(names))]
    listener = C.Conn('listener')
    srv.dispatcher.handle_request(listener, ('activate', None, None))
    nupd = len(listener.sent)
    before = (mod.parameters['p'].value, mod.parameters['p'].readerror, mod.parameters['p'].timestamp)
    h, per = C.scripted_handler(srv, [('change', 'm:' + addr, x)])
    if not env.check(len(per) == 1 and len(per[0]) == 1, K + '/not-exactly-one-reply', per):
        return
    ract, rspec, rdata = per[0][0]
    after = (mod.parameters['p'].value, mod.parameters['p'].readerror, mod.parameters['p'].timestamp)
    reachable = wire is not None and addr == wire
    inside = M.And(lo <= x, x <= hi, dlo <= x, x <= dhi)
    if hook:
        inside = M.And(inside, x <= thr)
    if ract == 'changed':
        env.note('gen/accepted')
        env.check(reachable, K + '/request-under-a-wrong-name-accepted', [export, addr])
        env.check(acc in ('writable', 'cfg-writable'), K + '/forbidden-request-accepted', acc)
        v = after[0]
        tol = M.sx_max(M.absv(M.as_real(x)) * 1.2e-7, 0) if kind == 'float' else 0
        env.check(M.And(lo <= v, v <= hi), K + '/out-of-datainfo-value-accepted')
        env.check(M.absv(v - x) <= tol, K + '/cache-differs-from-written')
        env.check(M.And(dlo <= v, v <= dhi), K + '/dynamic-limit-bypassed', lim)
        if hook:
            env.check(v <= thr, K + '/check-hook-bypassed')
        if wm:
            env.check(len(log) == 1, K + '/driver-not-called-exactly-once', len(log))
            if len(log) == 1:
                env.check(M.eq(log[0], v), K + '/driver-got-other-value')
        upd = [m for m in listener.sent[nupd:] if m[1] == 'm:' + wire]
        env.check(len(upd) <= 1, K + '/more-than-one-update')
        return
    if not env.check(ract == 'error_change' and rspec == 'm:' + addr, K + '/reply-action-or-specifier', [ract, rspec]):
        return
    err = rdata[0]
    if not reachable:
        env.note('gen/unreachable')
        env.check(err == 'NoSuchParameter', K + '/wrong-error-class-for-undescribed-name', [export, addr, err])
    elif acc not in ('writable', 'cfg-writable'):
        env.note('gen/refused')
        env.check(err == 'ReadOnly', K + '/wrong-error-class-for-readonly', [acc, err])
    else:
        env.note('gen/refused')
        env.check(err in ('RangeError', 'WrongType'), K + '/wrong-error-class', err)
        # a valid request that satisfies every limit is not refused
        env.check(M.Not(inside), K + '/valid-request-refused', [lim, hook])
    env.check(log == [], K + '/driver-called-although-refused', len(log))
    env.check(M.And(M.eq(before[0], after[0]), before[1] == after[1], before[2] == after[2]), K + '/cache-changed-although-refused')
    env.check(listener.sent[nupd:] == [], K + '/update-emitted-although-refused')
