"""C20 -- CrossHair part: symbolic strings (see engine/xh.py, harness/xh/)"""
PROPERTY = 'C20'
FUNCTIONS = []
ASSUMPTIONS = ['CrossHair conditions: symbolic str arguments of bounded length (see the contract of each function in harness/xh); verdicts other '
               'than "Confirmed over all paths" are inconclusive for that condition']


def cases(tier):
    return []


def xh_conditions(tier):
    return [{'id': 'C20/xh/level-names', 'file': 'xh_c20', 'function': 'level_names'}]
