"""C05 -- the update stream always reconstructs the node's parameter cache (sequential histories; thread schedules: C05_races.py)

real Module.announceUpdate funnel, read/write wrappers, Parameter.__set__, real
Dispatcher fan-out; virtual clock with symbolic non-decreasing instants; the
operation at each step is chosen by a symbolic selector."""
import dtmodel as M
import common as C

PROPERTY = 'C05'
FUNCTIONS = ['frappy.modulebase.Module.announceUpdate', 'frappy.modulebase.HasAccessibles.__init_subclass__ (read/write wrappers)',
             'frappy.params.Parameter.{__set__,finish}', 'frappy.protocol.dispatcher.{make_update,Dispatcher.announce_update,broadcast_event,handle_activate}',
             'frappy.errors.secop_error']
ASSUMPTIONS = ['one module with a float, an int and a struct parameter; histories of <= 3 (quick) / 4 (thorough) operations',
               'time: t0 in [1000,1100], every step advances the virtual clock by a symbolic amount in [0, 50] s',
               'omit_unchanged_within symbolic in [0, 20] (module property) or update_unchanged in {always, never, 5 s}',
               'sequential histories here; concurrent announcers are explored by harness/C05_races.py']
REQUIRED_TAGS = ['update-seen', 'error-update-seen', 'omitted']
LIMITS = {'quick': {'max_paths': 30000, 'max_s': 150}, 'thorough': {'max_paths': 300000, 'max_s': 900}}

OPS = ['read-ok', 'read-secop-error', 'read-other-error', 'read-invalid', 'write', 'assign', 'assign-same', 'announce-error',
       'read-ok-n', 'assign-struct', 'announce-with-timestamp']


LATE_OPS = [OPS.index(n) for n in ('read-ok', 'read-secop-error', 'assign', 'assign-same', 'announce-error', 'announce-with-timestamp')]


def cases(tier):
    depth = 4 if tier == 'thorough' else 3
    out = []
    for uu in ('default', 'always', 'never', 'seconds'):
        for act in (range(depth + 1) if tier == 'thorough' else (0, 1, depth)):
            # partition by the first operation for parallelism
            for first in range(len(OPS)):
                out.append({'fn': 'run_history', 'id': f'uu-{uu}/activate@{act}/first-{OPS[first]}',
                            'params': {'uu': uu, 'activate_at': act, 'depth': depth, 'first': first}})
    return out


def build(env, uu, clock):
    from frappy.core import Module, Parameter, FloatRange, IntRange, StructOf
    import frappy.modulebase as mb
    mb.time = clock
    script = {}

    class Mod(Module):
        v = Parameter('float', FloatRange(-100, 100), readonly=False, default=0,
                      **({} if uu == 'default' else {'update_unchanged': {'always': 'always', 'never': 'never', 'seconds': 5}[uu]}))
        n = Parameter('int', IntRange(-5, 5), readonly=False, default=0)
        s = Parameter('struct', StructOf(a=FloatRange(), b=IntRange()), readonly=False, default={'a': 0, 'b': 0})
        hid = Parameter('unexported', FloatRange(), readonly=False, default=0, export=False)

        def read_v(self):
            return script['v']()

        def read_n(self):
            return script['n']()

        def write_v(self, value):
            return None

    cfg = {'cls': Mod, 'description': 'm'}
    if uu == 'default':
        cfg['omit_unchanged_within'] = env.real('omit', 0, 20)
    srv = C.make_node({'m': cfg})
    return srv, srv.secnode.modules['m'], script


def fold(msgs, state):
    for action, spec, data in msgs:
        if action == 'update':
            state[spec] = ('ok', data[0], data[1].get('t'))
        elif action == 'error_update':
            state[spec] = ('err', data[0], data[1], data[2].get('t'))
    return state


def cache_state(mod):
    out = {}
    for pobj in mod.parameters.values():
        if not pobj.export:
            continue
        key = f'm:{pobj.export}'
        if pobj.readerror:
            out[key] = ('err', pobj.readerror.name, str(pobj.readerror), pobj.timestamp or None)
        else:
            out[key] = ('ok', pobj.export_value(), pobj.timestamp or None)
    return out


def run_history(env, p):
    from frappy.errors import HardwareError
    t0 = env.real('t0', 1000, 1100)
    clock = C.VirtualClock(t0)
    srv, mod, script = build(env, p['uu'], clock)
    conn = C.Conn()
    state = {}
    seen = 0
    K = 'C05'
    # further connections with narrower scopes must not take updates away from the generally activated one
    narrow = C.Conn('param-scope')
    srv.dispatcher.handle_request(narrow, ('activate', 'm:_v', None))
    modscope = C.Conn('module-scope')
    srv.dispatcher.handle_request(modscope, ('activate', 'm', None))
    nstate, mstate = fold(narrow.sent, {}), fold(modscope.sent, {})
    nseen, mseen = len(narrow.sent), len(modscope.sent)
    for step in range(p['depth'] + 1):
        if step == p['activate_at']:
            reply = srv.dispatcher.handle_request(conn, ('activate', None, None))
            env.check(reply[0] == 'active', K + '/activate-reply')
            fold(conn.sent[seen:], state)
            seen = len(conn.sent)
            compare(env, state, cache_state(mod), K + '/snapshot')
        if step == p['depth']:
            break
        if step == 0:
            op = p['first']
        elif p['depth'] > 3 and step >= 2:
            op = LATE_OPS[env.choice(f'op{step}', len(LATE_OPS))]   # thorough: reduced alphabet for the last steps
        else:
            op = env.choice(f'op{step}', len(OPS))
        clock.now = clock.now + env.real(f'dt{step}', 0, 50)
        name = OPS[op]
        before = cache_state(mod)
        expect = None   # (parameter, 'ok', value) | (parameter, 'err', error name)
        try:
            if name == 'read-ok':
                x = env.real(f'x{step}', -1000, 1000)
                script['v'] = lambda x=x: x
                expect = ('v', 'ok', x)
                mod.read_v()
            elif name == 'read-ok-n':
                x = env.int(f'x{step}', -1000, 1000)
                script['n'] = lambda x=x: x
                expect = ('n', 'ok', x)
                mod.read_n()
            elif name == 'read-secop-error':
                script['v'] = lambda: (_ for _ in ()).throw(HardwareError('hw'))
                expect = ('v', 'err', 'HardwareError')
                mod.read_v()
            elif name == 'read-other-error':
                script['v'] = lambda: (_ for _ in ()).throw(ValueError('oops'))
                expect = ('v', 'err', 'InternalError')
                mod.read_v()
            elif name == 'read-invalid':
                script['v'] = lambda: 'not a number'
                expect = ('v', 'err', 'WrongType')
                mod.read_v()
            elif name == 'write':
                x = env.real(f'x{step}', -100, 100)
                expect = ('v', 'ok', x)
                mod.write_v(x)
            elif name == 'assign':
                x = env.real(f'x{step}', -1000, 1000)
                expect = ('v', 'ok', x)
                mod.v = x
            elif name == 'assign-same':
                expect = ('v', 'ok', mod.v)
                mod.v = mod.v
            elif name == 'assign-struct':
                mod.s = {'a': env.real(f'x{step}', -10, 10), 'b': 1}
            elif name == 'announce-with-timestamp':
                # a value with its own (possibly older) time stamp, e.g. from a remote node with a lagging clock
                x = env.real(f'x{step}', -1000, 1000)
                ts = env.real(f'ts{step}', 900, 1300)
                env.assume(x != mod.v)
                expect = ('v', 'ok', x)
                mod.announceUpdate('v', x, timestamp=ts)
            elif name == 'announce-error':
                expect = ('v', 'err', 'HardwareError')
                mod.announceUpdate('v', err=HardwareError('hw'))
        except Exception:
            pass   # read errors propagate to the caller by design; the cache is what counts
        new = conn.sent[seen:]
        seen = len(conn.sent)
        after = cache_state(mod)
        fold(narrow.sent[nseen:], nstate)
        fold(modscope.sent[mseen:], mstate)
        nseen, mseen = len(narrow.sent), len(modscope.sent)
        compare(env, nstate, {k: v for k, v in after.items() if k == 'm:_v'}, K + f'/{name}/parameter-scope-stream-differs-from-cache')
        compare(env, mstate, after, K + f'/{name}/module-scope-stream-differs-from-cache')
        if expect:
            # the cache itself reflects the outcome of the operation (a recovery clears the error)
            pobj = mod.parameters[expect[0]]
            if expect[1] == 'ok':
                env.check(not pobj.readerror, K + f'/{name}/error-not-cleared-by-successful-operation')
                env.check(M.eq(pobj.value, expect[2]), K + f'/{name}/cache-does-not-hold-the-new-value')
            else:
                env.check(bool(pobj.readerror) and pobj.readerror.name == expect[2], K + f'/{name}/error-not-cached',
                          pobj.readerror and pobj.readerror.name)
        if step >= p['activate_at']:
            for m in new:
                env.note('update-seen' if m[0] == 'update' else 'error-update-seen')
                env.check(m[0] in ('update', 'error_update'), K + '/foreign-message')
                # no message carries a state the cache does not hold (one cache change per operation)
                one = fold([m], {})
                compare(env, one, {k: after[k] for k in one}, K + f'/{name}/message-not-a-cache-state')
            if not new:
                env.note('omitted')
            fold(new, state)
            compare(env, state, after, K + f'/{name}/stream-differs-from-cache')
            # per parameter at most one message for one cache change
            env.check(len(new) <= 1, K + f'/{name}/more-messages-than-changes', len(new))
        else:
            env.check(new == [], K + '/update-before-activation')


def compare(env, folded, cache, key):
    env.check(set(folded) == set(cache), key + '/parameters', sorted(set(folded) ^ set(cache)))
    for k in cache:
        if k not in folded:
            continue
        a, b = folded[k], cache[k]
        if not env.check(a[0] == b[0], key + '/ok-vs-error', [k, a[0], b[0]]):
            continue
        env.check(M.eq(list(a[1:]), list(b[1:])), key + '/content', k)
