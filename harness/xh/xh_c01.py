"""CrossHair conditions for C01/C02: string valued leaves (symbolic str)"""
from frappy.datatypes import StringType, EnumType, TupleOf, ArrayOf, BLOBType, BoolType
from frappy.errors import BadValueError


def string_validate(s: str, minchars: int, maxchars: int, utf8: bool) -> bool:
    """
    pre: len(s) <= 4 and 0 <= minchars <= maxchars <= 5
    post: _ == True
    """
    dt = StringType(minchars, maxchars, isUTF8=utf8)
    try:
        r = dt.validate(dt.import_value(s))
    except BadValueError:
        # rejection is always allowed; a value inside the set must not be refused
        inside = minchars <= len(s) <= maxchars and '\0' not in s and (utf8 or all(ord(c) < 128 for c in s))
        return not inside
    except Exception:
        return False
    if r != s or not isinstance(r, str):
        return False
    if not minchars <= len(s) <= maxchars or '\0' in s:
        return False
    if not utf8 and any(ord(c) >= 128 for c in s):
        return False
    return dt.validate(r) == r and dt.import_value(dt.export_value(r)) == r and dt.from_string(dt.to_string(r)) == r


def enum_by_name(name: str) -> bool:
    """
    pre: len(name) <= 3
    post: _ == True
    """
    dt = EnumType('e', a=1, b=2, ab=5)
    members = {'a': 1, 'b': 2, 'ab': 5}
    try:
        r = dt.validate(dt.import_value(name))
    except BadValueError:
        return name not in members
    except Exception:
        return False
    return name in members and r.value == members[name] and r.name == name and dt.from_string(dt.to_string(r)) == r


def string_is_no_sequence(s: str) -> bool:
    """
    pre: len(s) <= 3
    post: _ == True
    """
    for dt in (TupleOf(StringType(), StringType()), ArrayOf(StringType(), 0, 3)):
        for fn in (dt, dt.validate, dt.import_value):
            try:
                fn(s)
                return False      # a string taken as a list of characters
            except BadValueError:
                pass
            except Exception:
                return False
    return True


def bool_from_string(text: str) -> bool:
    """
    pre: len(text) <= 5
    post: _ == True
    """
    dt = BoolType()
    try:
        v = dt.from_string(text)
    except BadValueError:
        return text.strip() not in ('0', '1', 'True', 'False', 'true', 'false', 'yes', 'no', 'on', 'off')
    except Exception:
        return False
    return isinstance(v, bool) and dt.from_string(dt.to_string(v)) is v
