"""CrossHair conditions on a small node built once at import time (concrete), driven with symbolic strings"""
import sys
import os
sys.path.insert(0, os.path.join(os.path.dirname(os.path.abspath(__file__)), '..'))
import common as C
from frappy.core import Module, Parameter, Command, FloatRange
from frappy.errors import SECoPError

LOG = []


class Mod(Module):
    p = Parameter('writable', FloatRange(0, 10), readonly=False, default=1)
    q = Parameter('custom name', FloatRange(0, 10), readonly=False, default=1, export='_other')
    h = Parameter('unexported', FloatRange(0, 10), readonly=False, default=1, export=False)
    target = Parameter('predefined', FloatRange(0, 10), readonly=False, default=1)

    def write_p(self, value):
        LOG.append(('p', self.name))
        return value

    def write_q(self, value):
        LOG.append(('q', self.name))
        return value

    def write_h(self, value):
        LOG.append(('h', self.name))
        return value

    def write_target(self, value):
        LOG.append(('target', self.name))
        return value

    @Command()
    def go(self):
        """predefined command"""
        LOG.append(('go', self.name))

    @Command(export=False)
    def svc(self):
        """unexported command"""
        LOG.append(('svc', self.name))


SRV = C.make_node({'m': {'cls': Mod, 'description': 'm'}, 'mm': {'cls': Mod, 'description': 'mm'},
                   'hid': {'cls': Mod, 'description': 'hidden', 'export': False}})
DESCRIBED_PARAMS = {'m:_p': ('p', 'm'), 'm:_other': ('q', 'm'), 'm:target': ('target', 'm'), 'm': ('target', 'm'),
                    'mm:_p': ('p', 'mm'), 'mm:_other': ('q', 'mm'), 'mm:target': ('target', 'mm'), 'mm': ('target', 'mm')}
DESCRIBED_CMDS = {'m:go': ('go', 'm'), 'mm:go': ('go', 'mm')}


def change_routing(spec: str) -> bool:
    """
    pre: len(spec) <= 7
    post: _ == True
    """
    del LOG[:]
    try:
        SRV.dispatcher.handle_request(C.Conn(), ('change', spec, 2.0))
        ok = True
    except SECoPError:
        ok = False
    except Exception:
        ok = False
    want = DESCRIBED_PARAMS.get(spec)
    if want is None:
        return not ok and LOG == []
    return ok and LOG == [want]


def do_routing(spec: str) -> bool:
    """
    pre: len(spec) <= 6
    post: _ == True
    """
    del LOG[:]
    try:
        SRV.dispatcher.handle_request(C.Conn(), ('do', spec, None))
        ok = True
    except Exception:
        ok = False
    want = DESCRIBED_CMDS.get(spec)
    if want is None:
        return not ok and LOG == []
    return ok and LOG == [want]


def activate_scope(spec: str) -> bool:
    """
    pre: len(spec) <= 6
    post: _ == True
    """
    conn = C.Conn()
    try:
        SRV.dispatcher.handle_request(conn, ('activate', spec, None))
        ok = True
    except Exception:
        ok = False
    valid = spec in ('', 'm', 'mm', 'm:_p', 'm:_other', 'm:target', 'mm:_p', 'mm:_other', 'mm:target')
    SRV.dispatcher.remove_connection(conn)
    if not valid:
        return not ok and conn.sent == []
    return ok and all(msg[1].startswith((spec or 'm').split(':')[0] + ':') or spec == '' for msg in conn.sent)


def unsubscribe_prefix(a: str, b: str) -> bool:
    """
    pre: len(a) <= 3 and len(b) <= 5 and ':' not in a and len(a) > 0
    post: _ == True
    """
    # deactivating module scope <a> must not touch a subscription <b> of another module
    d = SRV.dispatcher
    conn = C.Conn()
    d._subscriptions.clear()
    d.subscribe(conn, b)
    d.unsubscribe(conn, a)
    still = conn in d._subscriptions.get(b, set())
    related = b == a or b.startswith(a + ':')
    d._subscriptions.clear()
    return still != related
