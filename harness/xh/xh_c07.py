"""CrossHair conditions for C07: codec inverse and framing with symbolic strings"""
import frappy.protocol.interface as fi
from frappy.protocol.interface import encode_msg_frame, decode_msg

DATAS = [None, 0, 'with space', [1, {'a': None}], {'t': 1.5}, '']


def codec_inverse(action: str, specifier: str, di: int) -> bool:
    """
    pre: 0 < len(action) <= 4 and len(specifier) <= 4 and 0 <= di < 6
    pre: not any(c.isspace() or c == chr(0) for c in action + specifier)
    post: _ == True
    """
    data = DATAS[di]
    frame = encode_msg_frame(action, specifier, data)
    if not frame.endswith(b'\n') or frame.count(b'\n') != 1:
        return False
    back = decode_msg(frame[:-1])
    if specifier == '' and data is not None:
        # grammar: data needs a specifier position; an empty one decodes to None
        return back == (action, None, data)
    return back == (action, specifier or None, data)


def segmentation(x: str, y: str) -> bool:
    """
    pre: len(x) <= 4 and len(y) <= 4
    post: _ == True
    """
    # the framing functions are sequence generic: checked on the latin-1 str view with EOL patched to a str
    old = fi.EOL
    fi.EOL = '\n'
    try:
        def drain(buf):
            msgs = []
            while True:
                m, buf = fi.get_msg(buf)
                if m is None:
                    return msgs, buf
                msgs.append(m)
        whole, rest = drain(x + y)
        first, buf = drain(x)
        second, rest2 = drain(buf + y)
        return whole == first + second and rest == rest2 and '\n' not in rest and all('\n' not in m for m in whole)
    finally:
        fi.EOL = old
