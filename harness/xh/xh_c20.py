"""CrossHair conditions for C20/C12: level names and error reconstruction with symbolic strings"""
from frappy.logging import check_level, LOG_LEVELS
from frappy.errors import make_secop_error, SECoPError


def level_names(name: str) -> bool:
    """
    pre: len(name) <= 7
    post: _ == True
    """
    try:
        r = check_level(name)
    except ValueError:
        return name.lower() not in LOG_LEVELS
    except Exception:
        return False
    return name.lower() in LOG_LEVELS and r == LOG_LEVELS[name.lower()]


def error_rebuild(name: str, text: str) -> bool:
    """
    pre: len(name) <= 4 and len(text) <= 6
    post: _ == True
    """
    try:
        e = make_secop_error(name, text)
    except Exception:
        return False
    if not isinstance(e, SECoPError):
        return False
    # the rebuilt error carries the reported text (or its part after a known class prefix)
    return str(e.args[0]) == text or text.endswith(str(e.args[0]))
