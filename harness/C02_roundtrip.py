"""C02 -- valid values survive the wire encoding and the text encoding

symbolic part: for every shape (symbolic limits) and every symbolic member v of
its value set: export_value(v) has the prescribed JSON kinds, and importing it
again -- on the node datatype and on the datatype rebuilt from the exported
datainfo (client side) -- gives a value equal to v.

concrete part (runs in replay mode on the solver-chosen witness models of
every explored path, on the unmodified tree): the text form
from_string(to_string(v)) has the identical text form again, and the exported
value survives real json.dumps/json.loads as strict JSON.
"""
import dtmodel as M
from C01_validate import D, DU, DA, DDEG, I, IDEG, B, S, SU, BL, ENUM, SC

PROPERTY = 'C02'
FUNCTIONS = ['frappy.datatypes.*.{export_value,import_value,validate,export_datatype,to_string,from_string,format_value}',
             'frappy.datatypes.get_datatype', 'frappy.properties.HasProperties.exportProperties']
ASSUMPTIONS = ['valid values are generated from the value set itself (symbolic member of [min,max], grid index, container lengths 0..3)',
               'scaled integers: grid index box +-8 (see C01), scales {0.1, 0.5, 3, 1e6, 0.001, 2**-10, 1/3, 1.000001}',
               'strings/blobs: catalogue literals incl. non-ASCII, quotes, backslash, newline, all-byte-values blob',
               'text form of float leaves is checked on solver-chosen witness models only (sampled, not solver-decided)',
               'JSON text is produced by the real json module on witness models; symbolically only the JSON kinds are decided']
REQUIRED_TAGS = ['roundtrip']
ACCEPTED_FLAGS = {'hash-of-nonintegral-real': 'see C01'}
LIMITS = {'quick': {'max_paths': 3000, 'max_s': 100, 'witnesses': 3}, 'thorough': {'max_paths': 40000, 'max_s': 600, 'witnesses': 12}}

STRS = ['', 'a', 'ab', 'é€😀', 'q"\'\\', 'l1\nl2', '  sp ', 'True', '1']
BLOBS = [b'', b'a', bytes(range(256)), b'\x00\xff\n']


def case(cid, shape, **kw):
    return {'fn': 'run_roundtrip', 'id': cid, 'params': dict(shape=shape, **kw)}


def cases(tier):
    out = []
    leaves = {'double': D, 'double-unlimited': DU, 'double-absres': DA, 'double-deg': DDEG, 'int': I, 'int-deg': IDEG,
              'bool': B, 'enum': ENUM, 'scaled0.1': SC(0.1), 'scaled0.5': SC(0.5), 'scaled3': SC(3), 'scaled1e6': SC(1e6),
              'scaled0.001': SC(0.001), 'scaled2^-10': SC(2 ** -10), 'scaled1/3': SC(1 / 3), 'scaled1.000001': SC(1.000001)}
    leaves['int-big'] = {'k': 'int', 'big': True}
    for n, s in leaves.items():
        out.append(case(n, s))
    for i, lit in enumerate(STRS):
        out.append(case(f'string-utf8/{i}', SU, lit=lit))
        out.append(case(f'string-unlimited/{i}', {'k': 'string', 'unlimited': True, 'utf8': True}, lit=lit))
        if lit.isascii():
            out.append(case(f'string/{i}', S, lit=lit))
    for i, lit in enumerate(BLOBS):
        out.append(case(f'blob/{i}', BL if len(lit) < 6 else {'k': 'blob', 'fixed': [0, 300]}, lit=list(lit)))
    conts = {'array-double': {'k': 'array', 'of': D}, 'array-scaled': {'k': 'array', 'of': SC(0.1)},
             'array-enum': {'k': 'array', 'of': ENUM},
             'tuple': {'k': 'tuple', 'of': [D, I, ENUM, B]},
             'tuple1': {'k': 'tuple', 'of': [I]}, 'tuple1-enum': {'k': 'tuple', 'of': [ENUM]},
             'struct': {'k': 'struct', 'of': {'x': D, 'n': I, 'e': ENUM}, 'optional': ['n']},
             'deep': {'k': 'array', 'of': {'k': 'struct', 'of': {'p': {'k': 'tuple', 'of': [SC(0.5), ENUM]}, 'q': I}}},
             }
    if tier == 'thorough':
        conts['array-array'] = {'k': 'array', 'of': {'k': 'array', 'of': I}}
        conts['struct-struct'] = {'k': 'struct', 'of': {'a': {'k': 'struct', 'of': {'x': D}}, 'b': {'k': 'tuple', 'of': [B, D]}}}
    for n, s in conts.items():
        out.append(case(n, s))
    # partial structs (optional members omitted) on the client side, nested
    so = {'k': 'struct', 'of': {'x': D, 'n': I, 'e': ENUM}, 'optional': ['n', 'e']}
    nested = {'struct-opt': so, 'array-struct-opt': {'k': 'array', 'of': so}, 'tuple-struct-opt': {'k': 'tuple', 'of': [so, B]},
              'struct-struct-opt': {'k': 'struct', 'of': {'inner': so, 'f': D}}}
    for n, s in nested.items():
        out.append({'fn': 'run_partial_client', 'id': f'partial-client/{n}', 'params': {'shape': s}})
    # the scale changed after construction (setProperty, forwarded by an array, or a configuration override Param(scale=...))
    for s0, s1 in ((0.1, 0.01), (0.5, 0.1), (0.01, 0.1), (1.0, 0.001), (0.001, 3.0)):
        for how in ('direct', 'array', 'parameter'):
            out.append({'fn': 'run_rescaled', 'id': f'rescaled/{s0}->{s1}/{how}', 'params': {'scales': [s0, s1], 'how': how}})
    return out


def json_kind_ok(spec, e):
    """the exported form has the JSON kind SECoP prescribes (symbolic numbers count by python type)"""
    k = spec.kind
    t = M.pytype(e)
    if k == 'double':
        return t is float
    if k in ('int', 'scaled', 'enum'):
        return t is int
    if k == 'bool':
        return t is bool
    if k in ('string', 'blob'):
        return t is str
    if k == 'array':
        return t is list and all(json_kind_ok(spec.sub, x) for x in e)
    if k == 'tuple':
        return t is list and len(e) == len(spec.subs) and all(json_kind_ok(s, x) for s, x in zip(spec.subs, e))
    if k == 'struct':
        return t is dict and all(type(n) is str and n in spec.subs and json_kind_ok(spec.subs[n], x) for n, x in e.items())
    return False


def run_roundtrip(env, p):
    from frappy.datatypes import get_datatype
    spec = M.build(env, p['shape'], 'd')
    if 'lit' in p:
        v = bytes(p['lit']) if spec.kind == 'blob' else p['lit']
        env.assume(M.And(spec.min <= len(v), len(v) <= spec.max))
    else:
        v = M.valid_value(env, spec, 'v')
    dt = spec.dt
    K = 'C02/' + spec.kind
    try:
        e = dt.export_value(v)
    except Exception as ex:
        env.fail(K + '/export-raises/' + type(ex).__name__, repr(ex))
        return
    env.check(json_kind_ok(spec, e), K + '/wrong-json-kind')
    try:
        r = dt.validate(dt.import_value(e))
    except Exception as ex:
        env.fail(K + '/import-raises/' + type(ex).__name__, repr(ex))
        return
    env.check(M.eq(r, v), K + '/node-roundtrip-differs')
    # client side: datatype rebuilt from the description
    try:
        info = dt.export_datatype()
        d2 = get_datatype(info, 'p')
        r2 = d2.validate(d2.import_value(e))
        e2 = d2.export_value(r2)
    except Exception as ex:
        env.fail(K + '/client-raises/' + type(ex).__name__, repr(ex))
        return
    env.check(M.eq(r2, v), K + '/client-roundtrip-differs')
    env.check(M.eq(e2, e), K + '/client-export-differs')
    env.note('roundtrip')
    if env.mode == 'replay':
        concrete_part(env, dt, d2, v, e, K)


def has_float(x):
    if isinstance(x, float):
        return True
    if isinstance(x, dict):
        return any(has_float(i) for i in x.values())
    if isinstance(x, (list, tuple)):
        return any(has_float(i) for i in x)
    return False


def concrete_part(env, dt, d2, v, e, K):
    """on concrete (solver chosen) values against the real tree: JSON text and text form"""
    import json
    try:
        text = json.dumps(e, allow_nan=False)
        back = json.loads(text)
    except Exception as ex:
        env.fail(K + '/not-strict-json/' + type(ex).__name__, repr(ex))
        return
    env.check(back == e and type(back) is type(e), K + '/json-text-roundtrip-differs', text)
    for which, d in (('node', dt), ('client', d2)):
        try:
            s1 = d.to_string(v)
            v2 = d.from_string(s1)
            s2 = d.to_string(v2)
        except Exception as ex:
            env.fail(f'{K}/text-form-raises/{which}/{type(ex).__name__}', repr(ex))
            continue
        env.check(s1 == s2, f'{K}/text-form-differs/{which}', [s1, s2])
        if not has_float(v):
            env.check(M.eq(d.validate(v2), d.validate(v)), f'{K}/text-form-value-differs/{which}', [s1, repr(v2)])
    env.note('concrete-text')


def strip_optional(spec, v):
    """the same value without the optional struct members"""
    if spec.kind == 'struct':
        return {k: strip_optional(spec.subs[k], x) for k, x in v.items() if k not in spec.optional or set(spec.optional) == set(spec.subs)}
    if spec.kind == 'array':
        return tuple(strip_optional(spec.sub, x) for x in v)
    if spec.kind == 'tuple':
        return tuple(strip_optional(sp, x) for sp, x in zip(spec.subs, v))
    return v


def run_partial_client(env, p):
    """a client may omit optional struct members at any nesting depth: the rebuilt datatype exports and
    re-imports such a partial value unchanged"""
    from frappy.datatypes import get_datatype
    spec = M.build(env, p['shape'], 'd')
    full = M.valid_value(env, spec, 'v')
    partial = strip_optional(spec, full)
    K = 'C02/partial-client/' + spec.kind
    d2 = get_datatype(spec.dt.export_datatype(), 'p')
    try:
        e = d2.export_value(partial)
        r = d2.validate(d2.import_value(e))
        e2 = d2.export_value(r)
    except Exception as ex:
        env.fail(K + '/client-refuses-partial-struct/' + type(ex).__name__, repr(ex)[:120])
        return
    env.check(M.eq(r, partial), K + '/partial-roundtrip-differs')
    env.check(M.eq(e2, e), K + '/partial-export-differs')
    env.check(json_kind_ok_partial(spec, e), K + '/wrong-json-kind')
    env.note('roundtrip')


def json_kind_ok_partial(spec, e):
    return json_kind_ok(spec, e)


def run_rescaled(env, p):
    """export/import of a scaled integer use the scale the datatype has NOW"""
    import frappy.datatypes as dt
    s0, s1 = p['scales']
    K = 'C02/rescaled'
    if p['how'] == 'direct':
        d = dt.ScaledInteger(s0, -100, 100)
        d.export_value(1.0)            # (something may have been computed from the first scale)
        d.setProperty('scale', s1)
    elif p['how'] == 'array':
        arr = dt.ArrayOf(dt.ScaledInteger(s0, -100, 100), 0, 3)
        arr.export_value([1.0])
        arr.setProperty('scale', s1)
        d = arr.members
    else:
        from frappy.params import Parameter
        par = Parameter('p', dt.ScaledInteger(s0, -100, 100), default=0)
        par.datatype.export_value(1.0)
        par.setProperty('scale', s1)
        d = par.datatype
    env.check(d.scale == s1, K + '/scale-not-changed', d.scale)
    k = env.int('k', -M.KBOX * 4, M.KBOX * 4)
    v = d.import_value(k)
    env.check(M.eq(d.export_value(v), k), K + '/node-export-of-import-differs', [s0, s1])
    env.check(M.absv(v - k * s1) <= abs(s1) * 1e-9 + 1e-12, K + '/import-uses-another-scale', [s0, s1])
    info = d.export_datatype()
    c = dt.get_datatype(info)
    env.check(M.eq(c.export_value(c.import_value(k)), k), K + '/client-roundtrip-differs')
    env.check(M.eq(c.import_value(d.export_value(v)), v) or M.absv(c.import_value(d.export_value(v)) - v) <= abs(s1) * 1e-9 + 1e-12,
              K + '/client-import-of-node-export-differs', [s0, s1])
    cp = d.copy()
    env.check(M.eq(cp.export_value(v), k), K + '/copy-export-differs')
    for t in REQUIRED_TAGS:
        env.note(t)
