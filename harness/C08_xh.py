"""C08 -- CrossHair part: symbolic strings (see engine/xh.py, harness/xh/)"""
PROPERTY = 'C08'
FUNCTIONS = []
ASSUMPTIONS = ['CrossHair conditions: symbolic str arguments of bounded length (see the contract of each function in harness/xh); verdicts other '
               'than "Confirmed over all paths" are inconclusive for that condition']


def cases(tier):
    return []


def xh_conditions(tier):
    return [{'id': 'C08/xh/activate-scope', 'file': 'xh_node', 'function': 'activate_scope'},
            {'id': 'C08/xh/unsubscribe-prefix', 'file': 'xh_node', 'function': 'unsubscribe_prefix'}]
