"""C03/C02 -- IEEE-754 lemmas for the scaled-integer kernels (engine/fp.py, QF_FP)

The reals abstraction of symx can not see rounding.  For every catalogue scale
and every grid index k (signed bit-vector) the kernels translated from the
current source must satisfy: the exported limit of a grid aligned decimal limit
is k; export(import(k)) == k; __call__ is idempotent on grid values and exports
to k.  sat -> the index is replayed on the real code; unknown -> inconclusive."""
import os

PROPERTY = 'C03'
FUNCTIONS = ['frappy.datatypes.ScaledInteger.{__call__,export_value,import_value,export_datatype} (translated from the AST into QF_FP)']
ASSUMPTIONS = ['IEEE lemmas: scale from {0.1, 0.01, 0.001, 0.5, 3, 2**-10, 0.2}, grid index a signed bit-vector of 9 (quick) / 13 (thorough) bits (idempotence lemma: 5 / 9 bits); '
               'limits are the doubles nearest to k*scale written as a decimal; z3 QF_FP with a time cap - a timed out lemma is inconclusive']
REQUIRED_TAGS = ['lemma-holds']
LIMITS = {'quick': {'max_s': 400}, 'thorough': {'max_s': 2000}}
SCALES = [0.1, 0.01, 0.001, 0.5, 3.0, 2 ** -10, 0.2]
LEMMAS = ('export-datatype-limit', 'export-import-roundtrip', 'call-idempotent', 'call-export')


def cases(tier):
    bits = 13 if tier == 'thorough' else 9
    out = []
    for s in SCALES:
        for lm in LEMMAS:
            b = bits if lm != 'call-idempotent' else bits - 4      # three chained divisions: much harder to bit-blast
            out.append({'fn': 'run_lemma', 'id': f'fp/{lm}/scale{s!r}', 'params': {'scale': s, 'lemma': lm, 'bits': b,
                                                                                   'timeout': 1500 if tier == 'thorough' else 150}})
    return out


def run_lemma(env, p):
    import fp
    bits = p['bits']
    k = env.int('k', -(1 << (bits - 1)), (1 << (bits - 1)) - 1)
    K = f"C03/fp/{p['lemma']}"
    if env.mode == 'sym':
        repo = os.environ.get('FRAPPY_REPO', '/repo')
        res = fp.solve(repo, p['lemma'], p['scale'], bits, p['timeout'])
        env.log('QF_FP', p['lemma'], 'scale', p['scale'], 'bits', bits, '->', res[0], res[1], 'in %.1fs' % res[-1] if len(res) > 2 else '')
        if res[0] == 'unsat':
            env.note('lemma-holds')
            env.check(True, K + '/holds')
            return
        if res[0] == 'unknown':
            env.ctx.flags.add('fp-lemma-inconclusive')
            env.note('lemma-inconclusive')
            env.check(True, K + '/inconclusive')
            return
        env.assume(k == res[1])
        k = res[1]
    ok = fp.concrete(p['lemma'], p['scale'], int(k))
    env.check(ok, K + f"/scale{p['scale']!r}", int(k))
