"""C19 -- discovery responder: bounded well-formed answers, unkillable by datagrams (symx part)

real UDPListener.__init__/_getMessage/run with the socket module and get_version
replaced in frappy.protocol.discovery's namespace (no bind, no network)."""
import common as C

PROPERTY = 'C19'
FUNCTIONS = ['frappy.protocol.discovery.UDPListener.{__init__,_getMessage,run,shutdown}']
ASSUMPTIONS = ['equipment id / description = padding (catalogue of characters: ASCII, 2/3/4 byte UTF-8, quote, backslash, control character) of a '
               'length chosen by a symbolic selector in a window around the 508 byte limit, plus a tail from a catalogue; symbolic *strings* are the '
               'subject of the CrossHair part',
               'datagram sequences of <= 3 datagrams chosen by symbolic selectors from a catalogue (valid requests, other JSON values, invalid '
               'UTF-8, empty, oversized), followed by one valid request',
               'the socket is a fake; real UDP is outside the claim']
REQUIRED_TAGS = ['truncated', 'untruncated', 'disabled', 'answered', 'ignored']
LIMITS = {'quick': {'max_paths': 60000, 'max_s': 150}, 'thorough': {'max_paths': 600000, 'max_s': 900}}

PADS = ['a', 'é', '€', '😀', '"', '\\', '\x01', '\n']
TAILS = ['', 'x', 'é', '😀', '"', '\\', '\x7f', 'a"', '😀é', ' ']
DATAGRAMS = [b'{"SECoP": "discover"}', b'{"SECoP":"discover","x":1}', b'{"SECoP": "node"}', b'{"SECoP": ["discover"]}', b'{}', b'5', b'null', b'[]',
             b'"SECoP"', b'true', b'{"SECoP": "discover"', b'', b'\xff\xfe', b'{"SECoP": "disc\xe9ver"}', b'x' * 1024, b'[1, 2', b'{"secop": "discover"}',
             b' {"SECoP": "discover"} ', b'{"SECoP": "discover"}\n', b'1e999', b'NaN',
             # longer than the receive buffer of the unchanged code (the fake socket truncates like UDP does)
             b'[' * 1500, b'{"a":' * 400,
             # the same request in other legal JSON spellings
             b'{"SECoP": "disc\\u006fver"}', b'{"\\u0053ECoP": "discover"}', b'{"SECoP"\t:\n"discover"}',
             # longer than 1024 bytes: a request padded with blanks inside the object, and a request followed by garbage
             b'{"SECoP": "discover"' + b' ' * 1100 + b'}', b'{"SECoP": "discover"}' + b' ' * 1003 + b'garbage']


class FakeSocketModule:
    AF_INET = SOCK_DGRAM = SOL_SOCKET = SO_REUSEADDR = SO_REUSEPORT = SO_BROADCAST = 0

    class error(OSError):
        pass

    def __init__(self):
        self.sock = None

    def socket(self, *a):
        self.sock = FakeUDP(self)
        return self.sock


class FakeUDP:
    def __init__(self, mod):
        self.mod = mod
        self.inbox = []
        self.sent = []

    def setsockopt(self, *a):
        pass

    def bind(self, addr):
        pass

    def recvfrom(self, n):
        if not self.inbox:
            raise self.mod.error('closed')
        return self.inbox.pop(0)[:n], ('10.0.0.7', 4711)

    fail_sends = ()

    def sendto(self, msg, addr):
        self.nsend = getattr(self, 'nsend', 0) + 1
        if self.nsend - 1 in self.fail_sends:
            raise OSError(22, 'Invalid argument')      # e.g. an answer to port 0, or an unreachable network
        self.sent.append((msg, addr))

    def close(self):
        pass


def make(eq, desc, ifaces, **kw):
    import frappy.protocol.discovery as dm
    fake = FakeSocketModule()
    dm.socket = fake
    dm.get_version = lambda *a: 'v1.2.3-verif'
    dm.closeSocket = lambda s: None
    udp = dm.UDPListener(eq, desc, ifaces, C.LOG, **kw)
    return udp, fake.sock


def cases(tier):
    out = []
    for pi in range(len(PADS)):
        for what in ('description', 'equipment_id'):
            out.append({'fn': 'run_size', 'id': f'size/{what}/pad{pi}', 'params': {'pad': pi, 'what': what}})
    depth = 3 if tier == 'thorough' else 2
    for first in range(len(DATAGRAMS)):
        out.append({'fn': 'run_datagrams', 'id': f'datagrams/first{first}', 'params': {'first': first, 'depth': depth}})
    out.append({'fn': 'run_send_failure', 'id': 'send-failure', 'params': {}})
    return out


def run_send_failure(env, p):
    """an answer (or the start-up announcement) that can not be sent does not stop the responder"""
    startup = bool(env.choice('startup-broadcast', 2))
    udp, sock = make('eq', 'desc', ['tcp://10767'], startup_broadcast=startup)
    K = 'C19/send-failure'
    nreq = 3
    failing = env.choice('failing-send', nreq + (1 if startup else 0))
    sock.fail_sends = (failing,)
    sock.inbox = [b'{"SECoP": "discover"}'] * nreq
    try:
        udp.run()
    except Exception as e:
        env.fail(K + '/responder-killed-by-a-send-error/' + type(e).__name__, [startup, failing, repr(e)])
        return
    env.check(sock.inbox == [], K + '/stopped-listening', len(sock.inbox))
    total = nreq + (1 if startup else 0)
    env.check(len(sock.sent) == total - 1, K + '/later-requests-not-answered', [startup, failing, len(sock.sent)])
    for t in REQUIRED_TAGS:
        env.note(t)


def run_size(env, p):
    import json
    import frappy.protocol.discovery as dm
    pad = PADS[p['pad']]
    padbytes = len(json.dumps(pad, ensure_ascii=False).encode('utf-8')) - 2
    # window of lengths around the point where the message reaches 508 bytes
    center = 420 // padbytes
    n = center - 12 + env.choice('len', 40)
    tail = TAILS[env.choice('tail', len(TAILS))]
    text = pad * max(0, n) + tail
    K = f"C19/size/{p['what']}"
    if p['what'] == 'description':
        eq, desc = 'eq-id', text
    else:
        eq, desc = text, 'descr' * env.choice('desclen', 3)
    try:
        udp, sock = make(eq, desc, ['tcp://10767', 'ws://8080', 'tcp://1'])
    except Exception as e:
        env.fail(K + '/constructor-raises/' + type(e).__name__, repr(e))
        return
    env.check(udp.ports == [10767, 1], K + '/ports', udp.ports)
    identity_only = len(json.dumps({'SECoP': 'node', 'port': 65535, 'equipment_id': eq, 'firmware': udp.firmware, 'description': ''},
                                   ensure_ascii=False, separators=(',', ':')).encode('utf-8'))
    if identity_only > 508:
        env.note('disabled')
        env.check(udp.is_enabled is False, K + '/not-disabled-although-identity-does-not-fit', identity_only)
        sock.inbox = [b'{"SECoP": "discover"}']
        udp.run()
        env.check(sock.sent == [], K + '/oversized-answer-sent', len(sock.sent))
        return
    env.check(udp.is_enabled is True, K + '/disabled-although-identity-fits', identity_only)
    for port in (1, 10767, 65535):
        msg = udp._getMessage(port)
        env.check(len(msg) <= 508, K + '/message-longer-than-508-bytes', [len(msg), n, repr(tail)])
        try:
            obj = json.loads(msg.decode('utf-8'))
        except Exception as e:
            env.fail(K + '/message-not-utf8-json/' + type(e).__name__, repr(e))
            return
        env.check(isinstance(obj, dict) and obj.get('SECoP') == 'node' and obj.get('port') == port and obj.get('equipment_id') == eq and
                  obj.get('firmware') == udp.firmware, K + '/identity-fields', repr(obj)[:120])
        d = obj.get('description')
        env.check(isinstance(d, str) and desc.startswith(d), K + '/description-not-a-character-prefix', [len(d or ''), len(desc)])
        if d == desc:
            env.note('untruncated')
        else:
            env.note('truncated')
            # truncation only when needed
            full = len(json.dumps(dict(obj, description=desc, port=65535), ensure_ascii=False, separators=(',', ':')).encode('utf-8'))
            env.check(full > 508, K + '/truncated-although-it-fits', full)
    # the announcement on start-up and the answers use that message, once per TCP port
    sock.inbox = [b'{"SECoP": "discover"}']
    udp.run()
    env.check([m for m, a in sock.sent] == [udp._getMessage(10767), udp._getMessage(1)] * 2, K + '/announcement-and-answer', len(sock.sent))
    env.note('answered')
    env.note('ignored')


def run_datagrams(env, p):
    udp, sock = make('eq', 'desc', ['tcp://10767'], startup_broadcast=False)
    K = 'C19/datagrams'
    seq = [p['first']] + [env.choice(f'd{i}', len(DATAGRAMS)) for i in range(1, p['depth'])]
    sock.inbox = [DATAGRAMS[i] for i in seq] + [b'{"SECoP": "discover"}']
    try:
        udp.run()
    except Exception as e:
        env.fail(K + '/responder-killed-by-datagram/' + type(e).__name__, [[DATAGRAMS[i][:30] for i in seq], repr(e)])
        return
    import json

    def is_discover(b):
        try:
            o = json.loads(b.decode('utf-8'))      # the datagram as it was sent (a receive buffer must not cut it)
        except (ValueError, RecursionError):
            return False
        return isinstance(o, dict) and o.get('SECoP') == 'discover'
    want = sum(1 for i in seq if is_discover(DATAGRAMS[i])) + 1
    env.check(sock.inbox == [], K + '/stopped-listening', len(sock.inbox))
    env.check(len(sock.sent) == want, K + '/answers-iff-discovery-request', [[DATAGRAMS[i][:30] for i in seq], len(sock.sent), want])
    env.check(all(a == ('10.0.0.7', 4711) for m, a in sock.sent), K + '/answer-address')
    env.note('answered')
    if want == 1:
        env.note('ignored')
    for t in ('truncated', 'untruncated', 'disabled'):
        env.note(t)
