"""C05 -- the update stream reconstructs the cache when 2-3 threads update concurrently

Logical threads (engine/cosched.py) run driver reads (ok / raising), writes,
direct assignments and explicit error announcements of the real Module against
an activated connection.  The locks of frappy.modulebase (access lock, update
lock) and frappy.protocol.dispatcher are cooperative, the connection takes a
cooperative send lock, the fake driver functions are synchronisation points
too.  The thread to continue at each point is a symbolic selector.

Ground truth for "the order the cache changed": a parameter callback
(Module.addCallback), invoked by the funnel for every announced cache change."""
import dtmodel as M
import common as C
from C05_updates import fold, cache_state, compare
from C08_races import LockedConn

PROPERTY = 'C05'
FUNCTIONS = ['frappy.modulebase.Module.announceUpdate under the update lock (2-3 threads)',
             'frappy.modulebase.HasAccessibles.__init_subclass__ (read/write wrappers under the access lock, 2-3 threads)',
             'frappy.protocol.dispatcher.Dispatcher.{announce_update,broadcast_event} (lock free fan-out)']
ASSUMPTIONS = ['schedules: every interleaving of 2-3 threads at synchronisation points (acquire/release of access lock, update lock, '
               'connection send lock, entry of the fake driver functions) with at most 2 (quick) / 3 (thorough) pre-emptions',
               'operations per thread: 1-2 out of read ok / read raising / write / assignment / error announcement with distinct values on a '
               'float parameter, assignments on a second parameter; omit_unchanged_within = 0 and 5 s at a constant virtual time']
REQUIRED_TAGS = ['race/preempted', 'race/update', 'race/error-update']
LIMITS = {'quick': {'max_paths': 60000, 'max_s': 200}, 'thorough': {'max_paths': 600000, 'max_s': 900}}

OPS = ['assign', 'read', 'read-err', 'write', 'announce-err', 'assign-n', 'assign-same']
PLANS2 = [(a, b) for a in OPS[:5] for b in OPS if OPS.index(a) <= OPS.index(b)]
PLANS3 = [('assign', 'read', 'announce-err'), ('read', 'read', 'write'), ('read-err', 'assign', 'assign'), ('write', 'write', 'read-err'),
          ('announce-err', 'announce-err', 'assign'), ('read-err', 'read-err', 'read')]
TWO_STEP = [(('assign', 'read-err'), ('read', 'announce-err')), (('read-err', 'read'), ('assign',)), (('write', 'assign-same'), ('read-err', 'assign')),
            (('announce-err', 'assign'), ('announce-err', 'read'))]


def cases(tier):
    out = []
    pre = 3 if tier == 'thorough' else 2
    for omit in (0, 5):
        for a, b in PLANS2:
            out.append({'fn': 'run_race', 'id': f'race/omit{omit}/{a}+{b}', 'params': {'plan': [[a], [b]], 'omit': omit, 'preempt': pre}})
        for plan in PLANS3:
            out.append({'fn': 'run_race', 'id': f'race/omit{omit}/' + '+'.join(plan), 'params': {'plan': [[x] for x in plan], 'omit': omit,
                                                                                            'preempt': pre}})
        for plan in TWO_STEP:
            out.append({'fn': 'run_race', 'id': f'race/omit{omit}/' + '+'.join('.'.join(t) for t in plan),
                        'params': {'plan': [list(t) for t in plan], 'omit': omit, 'preempt': pre}})
        # the connection is activated while the driver threads are at work
        for a in OPS[:5]:
            out.append({'fn': 'run_race', 'id': f'race/omit{omit}/activate+{a}', 'params': {'plan': [['activate'], [a]], 'omit': omit, 'preempt': pre}})
        for plan in (('read-err', 'read'), ('assign', 'announce-err'), ('read-err', 'assign-same')):
            out.append({'fn': 'run_race', 'id': f'race/omit{omit}/activate+' + '.'.join(plan),
                        'params': {'plan': [['activate'], list(plan)], 'omit': omit, 'preempt': pre}})
    return out


def run_race(env, p):
    import cosched
    import frappy.modulebase as mb
    import frappy.protocol.dispatcher as dp
    saved = mb.threading, dp.threading, mb.time
    cosched.patch_threading(mb, dp)
    mb.time = C.VirtualClock(1000.0)
    try:
        _run_race(env, p, cosched)
    finally:
        mb.threading, dp.threading, mb.time = saved


def _run_race(env, p, cosched):
    from frappy.core import Module, Parameter, FloatRange, IntRange
    from frappy.errors import HardwareError
    script = {}

    class Mod(Module):
        v = Parameter('float', FloatRange(-100, 100), readonly=False, default=0)
        n = Parameter('int', IntRange(-50, 50), readonly=False, default=0)

        def read_v(self):
            cosched.yield_point('driver-read')
            return script[cosched.Sched.current.me().name]()

        def write_v(self, value):
            cosched.yield_point('driver-write')
            return None

    srv = C.make_node({'m': {'cls': Mod, 'description': 'm', 'omit_unchanged_within': p['omit']}})
    mod = srv.secnode.modules['m']
    clock = [0]
    conn = LockedConn('c0', cosched.CoLock, clock)
    srv.dispatcher.add_connection(conn)
    late_activation = any('activate' in ops for ops in p['plan'])
    if not late_activation:
        srv.dispatcher.handle_request(conn, ('activate', None, None))
    state = fold([m for _, m in conn.sent], {})
    n0 = len(conn.sent)
    truth = {'v': [], 'n': []}
    mod.addCallback('v', lambda *a: truth['v'].append(a))
    mod.addCallback('n', lambda *a: truth['n'].append(a))
    K = 'C05/race'
    counter = [0]

    def make(tname, ops):
        def run():
            for op in ops:
                counter[0] += 1
                x = counter[0] + 0.5     # distinct values in the order the operations start
                try:
                    if op == 'activate':
                        srv.dispatcher.handle_request(conn, ('activate', None, None))
                    elif op == 'assign':
                        mod.v = x
                    elif op == 'assign-same':
                        mod.v = mod.v
                    elif op == 'assign-n':
                        mod.n = counter[0]
                    elif op == 'read':
                        script[tname] = lambda x=x: x
                        mod.read_v()
                    elif op == 'read-err':
                        script[tname] = lambda: (_ for _ in ()).throw(HardwareError(f'hw{tname}'))
                        mod.read_v()
                    elif op == 'write':
                        mod.write_v(x)
                    elif op == 'announce-err':
                        mod.announceUpdate('v', err=HardwareError('announced'))
                except HardwareError:
                    pass    # read errors propagate to the caller by design
        return run

    s = cosched.Sched(env, max_preempt=p['preempt'])
    for i, ops in enumerate(p['plan']):
        s.spawn(f't{i}', make(f't{i}', ops))
    s.run()
    env.check(s.deadlock is None, K + '/deadlock', s.deadlock)
    for t in s.threads:
        env.check(t.exc is None, K + '/thread-raised', [t.name, repr(t.exc)])
    if s.preempts:
        env.note('race/preempted')
    env.log('schedule', [x[0] for x in s.trace][:40])
    new = [m for _, m in conn.sent[n0:]]
    for m in new:
        env.note('race/update' if m[0] == 'update' else 'race/error-update')
        env.check(m[0] in ('update', 'error_update'), K + '/foreign-message')
    # messages of one parameter arrive in the order the cache changed, none carries a state the cache never held
    for par in ('v', 'n'):
        stream = []
        for m in new:
            if m[1] == f'm:_{par}':
                stream.append(('ok', m[2][0]) if m[0] == 'update' else ('err', m[2][0], m[2][1]))
        want = []
        for a in truth[par]:
            want.append(('ok', a[0]) if len(a) == 1 else ('err', a[1].name, str(a[1])))
        if late_activation:
            # activated somewhere in between: a snapshot plus a suffix of the changes; every message is a state the cache held
            held = [('ok', 0.0 if par == 'v' else 0)] + want
            for a in stream:
                env.check(any(a[0] == b[0] and M.eq(list(a[1:]), list(b[1:])) for b in held), K + '/message-carries-a-state-the-cache-never-held',
                          [par, a, held])
            env.check(len(stream) >= 1, K + '/no-snapshot-for-parameter', par)
            continue
        env.check(len(stream) == len(want), K + '/number-of-messages-differs-from-cache-changes', [par, stream, want])
        if len(stream) == len(want):
            for a, b in zip(stream, want):
                env.check(a[0] == b[0] and M.eq(list(a[1:]), list(b[1:])), K + '/messages-not-in-the-order-the-cache-changed', [par, stream, want])
    # replaying the stream gives the cache
    fold(new, state)
    compare(env, state, cache_state(mod), K + '/stream-differs-from-cache')
