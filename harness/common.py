"""fixtures shared by the node-level harnesses: null logger, fake server with the
real SecNode and Dispatcher, recording connections, a scripted request handler
on top of the real RequestHandler loop, virtual clock."""
import dtmodel as M


class NullLogger:
    """logging calls have empty bodies (formatting/logging is not the subject);
    carries a real RemoteLogHandler, as the server's root logger does"""
    propagate = False
    name = 'null'
    _handlers = None

    @property
    def handlers(self):
        if self._handlers is None:
            from frappy.logging import RemoteLogHandler
            self._handlers = [RemoteLogHandler()]
        return self._handlers

    def _no(self, *args, **kwds):
        pass
    debug = info = warning = warn = error = exception = critical = log = _no

    @property
    def parent(self):
        return self

    def getChild(self, name):
        return self

    def isEnabledFor(self, level):
        return False

    def setLevel(self, level):
        pass

    def addHandler(self, h):
        pass


LOG = NullLogger()


class FakeServer:
    """what Module/SecNode/Dispatcher need from frappy.server.Server"""
    def __init__(self, module_cfg):
        self.module_cfg = module_cfg
        self.secnode = None
        self.dispatcher = None
        self.log = LOG
        self.shutdown_called = 0

    def restart(self):
        pass

    def shutdown(self):
        self.shutdown_called += 1


def init_config(**kw):
    from frappy.lib import generalConfig
    cfg = dict(omit_unchanged_within=0, lazy_number_validation=False, legacy_hasiodev=False, tolerate_poll_property=False)
    cfg.update(kw)
    generalConfig.testinit(**cfg)


def make_node(module_cfg, init=True, equipment_id='eq', description='node'):
    """real SecNode + real Dispatcher over module_cfg {name: {'cls': Class, 'description': ..., ...}}"""
    from frappy.secnode import SecNode
    from frappy.protocol.dispatcher import Dispatcher
    init_config()
    import frappy.secnode as _sn
    _sn.get_version = lambda *a, **k: 'verif'   # git describe is not available in the sandbox
    srv = FakeServer(dict(module_cfg))
    srv.secnode = SecNode('node', LOG, {'equipment_id': equipment_id}, srv)
    srv.secnode.add_secnode_property('description', description)
    srv.dispatcher = Dispatcher('disp', LOG, {}, srv)
    srv.secnode.create_modules()
    if init:
        for name in list(srv.secnode.modules):
            srv.secnode.get_module(name)
    return srv


class Conn:
    """recording connection object as the dispatcher sees it"""
    def __init__(self, name='c'):
        self.name = name
        self.sent = []

    def send_reply(self, msg):
        self.sent.append(msg)

    def __repr__(self):
        return f'<Conn {self.name}>'


class InterfaceStub:
    def __init__(self, srv, detailed_errors=False):
        self.log = LOG
        self.dispatcher = srv.dispatcher
        self.detailed_errors = detailed_errors


def scripted_handler(srv, requests):
    """run the real RequestHandler.handle loop over decoded requests.

    requests: list of triples, or ('__decode_error__', raw_bytes).  returns (handler, replies)
    where replies[i] is the list of messages sent while request i was processed"""
    from frappy.protocol.interface.handler import RequestHandler, DecodeError, ConnectionClose

    class Handler(RequestHandler):
        def setup(self):
            super().setup()
            self.todo = list(requests)
            self.queue = []
            self.sent = []
            self.per_request = []

        def receive(self):
            if not self.todo:
                raise ConnectionClose()
            return self.todo.pop(0)

        def ingest(self, newdata):
            self.queue.append(newdata)

        def next_message(self):
            if not self.queue:
                return None
            msg = self.queue.pop(0)
            self.per_request.append([])
            if msg[0] == '__decode_error__':
                raise DecodeError('exception when reading in message', raw_msg=msg[1])
            return msg

        def send_reply(self, data):
            self.sent.append(data)
            if self.per_request:
                self.per_request[-1].append(data)

        def format(self):
            return 'scripted'

    import frappy.protocol.interface.handler as hmod
    hmod.print = lambda *a, **k: None   # rewrite T3: stdout chatter of the handler
    # the traceback texts put into detailed error reports are formatting only (they repr() every local)
    hmod.formatExtendedStack = hmod.formatException = hmod.formatExtendedTraceback = lambda *a, **k: ''
    h = Handler(None, None, InterfaceStub(srv))
    return h, h.per_request


class VirtualClock:
    """time source returning whatever the harness sets; patched into module namespaces"""
    def __init__(self, now):
        self.now = now

    def time(self):
        return self.now

    monotonic = time

    def sleep(self, t):
        self.now = self.now + t

    def __getattr__(self, name):
        import time
        return getattr(time, name)


def secop_error_classes():
    from frappy.errors import SECoPError
    return set(SECoPError.name2class)
