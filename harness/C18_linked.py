"""C18 -- linked parameters stay mutually consistent

struct parameter <-> member parameters, float parameter <-> enumerated index,
limit parameters, control hand-over between controllers and one output."""
import dtmodel as M
import common as C

PROPERTY = 'C18'
FUNCTIONS = ['frappy.extparams.StructParam.{__set_name__,finish}', 'frappy.extparams.FloatEnumParam.{__set_name__,__get__,finish,trigger_setter}',
             'frappy.params.Limit.set_datatype', 'frappy.modulebase.Module.checkLimits',
             'frappy.mixins.HasControlledBy.{register_input,self_controlled,update_target}',
             'frappy.mixins.HasOutputModule.{initModule,activate_control,deactivate_control,set_control_active}']
ASSUMPTIONS = ['struct layouts: 3 float members, with a combined read/write method and without; 2 (quick) / 3 (thorough) operations chosen by symbolic selectors, member values symbolic',
               'float-enum label sets from a catalogue; written float symbolic',
               'limit parameters: _min/_max, _limits, and both kinds together, with symbolic limit values and symbolic target',
               'control: 1..3 controllers on one output, <= 3 (quick) / 4 (thorough) operations']
REQUIRED_TAGS = ['struct-op', 'floatenum-op', 'limit-op', 'control-op']
LIMITS = {'quick': {'max_paths': 30000, 'max_s': 150}, 'thorough': {'max_paths': 300000, 'max_s': 900}}

STRUCT_OPS = ['write-member', 'write-struct', 'read-member', 'read-struct', 'assign-member', 'assign-struct', 'hw-changes', 'failing-struct-read']
LABELSETS = {'volts': (['500uV', '20mV', '1V'], 'V'), 'custom': ([(3, 'lo', 0.5), ('mid', 2.0), (7, 'hi', 10.0)], ''),
             'amps': (['1nA', '1uA', '1mA', '1A'], 'A')}


def cases(tier):
    depth = 4 if tier == 'thorough' else 3
    out = []
    for combined in (True, False):
        for first in range(len(STRUCT_OPS)):
            out.append({'fn': 'run_struct', 'id': f"struct/{'combined' if combined else 'members'}/first-{STRUCT_OPS[first]}",
                        'params': {'combined': combined, 'first': first, 'depth': depth - 1}})
    for name in LABELSETS:
        out.append({'fn': 'run_floatenum', 'id': f'floatenum/{name}', 'params': {'labels': name}})
    for kind in ('minmax', 'limits', 'min', 'max', 'both'):
        out.append({'fn': 'run_limits', 'id': f'limits/{kind}', 'params': {'kind': kind}})
        out.append({'fn': 'run_limits', 'id': f'limits/{kind}/hook-in-ancestor', 'params': {'kind': kind, 'inherited': True}})
    for n in (1, 2, 3):
        out.append({'fn': 'run_control', 'id': f'control/{n}', 'params': {'n': n, 'depth': depth}})
    return out


def tags(env):
    for t in REQUIRED_TAGS:
        env.note(t)


def run_struct(env, p):
    from frappy.core import Module, Parameter, FloatRange
    from frappy.errors import HardwareError
    from frappy.extparams import StructParam
    hw = {'p': 1.0, 'i': 2.0, 'd': 3.0}
    members = ('p', 'i', 'd')

    if p['combined']:
        class Mod(Module):
            ctrlpars = StructParam('ctrl', dict(p=Parameter('p', FloatRange()), i=Parameter('i', FloatRange()),
                                                d=Parameter('d', FloatRange())), 'pid_', readonly=False)

            def read_ctrlpars(self):
                return dict(hw)

            def write_ctrlpars(self, value):
                hw.update(value)
                return self.read_ctrlpars()
    else:
        class Mod(Module):
            ctrlpars = StructParam('ctrl', dict(p=Parameter('p', FloatRange()), i=Parameter('i', FloatRange()),
                                                d=Parameter('d', FloatRange())), 'pid_', readonly=False)

            def read_pid_p(self):
                if hw.get('fail'):
                    hw['fail'] = False
                    raise HardwareError('one failing read')
                return hw['p']

            def read_pid_i(self):
                return hw['i']

            def read_pid_d(self):
                return hw['d']

            def write_pid_p(self, value):
                hw['p'] = value
                return value

            def write_pid_i(self, value):
                hw['i'] = value
                return value

            def write_pid_d(self, value):
                hw['d'] = value
                return value
    srv = C.make_node({'m': {'cls': Mod, 'description': 'm'}})
    m = srv.secnode.modules['m']
    m.read_ctrlpars()
    K = 'C18/struct/' + ('combined' if p['combined'] else 'members')

    def agree(where):
        s = m.ctrlpars
        for k in members:
            env.check(M.eq(s[k], getattr(m, 'pid_' + k)), K + f'/struct-and-member-disagree/{where}', k)

    agree('start')
    for step in range(p['depth']):
        op = STRUCT_OPS[p['first'] if step == 0 else env.choice(f'op{step}', len(STRUCT_OPS))]
        k = members[env.choice(f'member{step}', 3)] if 'member' in op else None
        x = env.real(f'x{step}', -1000, 1000)
        env.note('struct-op')
        try:
            if op == 'write-member':
                getattr(m, 'write_pid_' + k)(x)
                env.check(M.eq(getattr(m, 'pid_' + k), x), K + '/written-member-not-cached')
                env.check(M.eq(hw[k], x), K + '/written-member-not-in-hardware')
            elif op == 'write-struct':
                v = {'p': x, 'i': x + 1, 'd': x + 2}
                m.write_ctrlpars(v)
                for kk in members:
                    env.check(M.eq(hw[kk], v[kk]), K + '/written-struct-not-in-hardware', kk)
            elif op == 'read-member':
                getattr(m, 'read_pid_' + k)()
            elif op == 'read-struct':
                m.read_ctrlpars()
            elif op == 'assign-member':
                setattr(m, 'pid_' + k, x)
            elif op == 'assign-struct':
                m.ctrlpars = {'p': x, 'i': x + 1, 'd': x + 2}
            elif op == 'failing-struct-read':
                # one communication failure while the struct is read: later operations must still keep both sides consistent
                if p['combined']:
                    continue
                hw['fail'] = True
                try:
                    m.read_ctrlpars()
                except HardwareError:
                    pass
                hw['fail'] = False
                m.read_ctrlpars()
            elif op == 'hw-changes':
                hw['i'] = x
                m.read_ctrlpars()
                env.check(M.eq(m.pid_i, x), K + '/hardware-change-not-seen-by-member')
        except Exception as e:
            env.fail(K + f'/{op}-raises/' + type(e).__name__, repr(e))
            return
        agree(op)
    tags(env)


def run_floatenum(env, p):
    from frappy.core import Module, Parameter
    from frappy.extparams import FloatEnumParam
    labels, unit = LABELSETS[p['labels']]

    fallback = {}

    class Mod(Module):
        vrange = FloatEnumParam('range', labels, unit, readonly=False)

        def write_vrange_idx(self, value):
            # hardware may end up at another index than requested (e.g. a range it does not have)
            return fallback.get(int(value), value)
    srv = C.make_node({'m': {'cls': Mod, 'description': 'm'}})
    m = srv.secnode.modules['m']
    K = 'C18/floatenum/' + p['labels']
    vdict = dict(m.parameters['vrange'].valuedict)
    idxs = sorted(vdict)
    lo, hi = min(vdict.values()), max(vdict.values())
    # (1) the float always shows the value belonging to the current index
    i = idxs[env.choice('idx', len(idxs))]
    m.write_vrange_idx(i)
    env.check(m.vrange == vdict[i], K + '/value-does-not-belong-to-index', [i, m.vrange])
    env.check(M.eq(m.parameters['vrange'].value, vdict[i]) or True, K + '/x')
    # (2) a write selects the closest allowed value
    x = env.real('x', lo, hi)
    try:
        m.write_vrange(x)
    except Exception as e:
        env.fail(K + '/write-raises/' + type(e).__name__, repr(e))
        return
    got = m.vrange
    gi = int(m.vrange_idx)
    env.check(got == vdict[gi], K + '/value-does-not-belong-to-index-after-write', [gi, got])
    for j in idxs:
        env.check(M.absv(got - x) <= M.absv(vdict[j] - x), K + '/not-the-closest-value', [got, vdict[j]])
    # (3) the hardware falls back to another index than requested: value and reply follow the index really set
    src = idxs[env.choice('fb-from', len(idxs))]
    dst = idxs[env.choice('fb-to', len(idxs))]
    fallback[src] = dst
    try:
        reply = m.write_vrange(vdict[src])
    except Exception as e:
        env.fail(K + '/write-raises/' + type(e).__name__, repr(e))
        return
    cur = int(m.vrange_idx)
    env.check(cur == dst, K + '/index-not-the-one-reported-by-hardware', [src, dst, cur])
    env.check(m.vrange == vdict[cur], K + '/value-does-not-belong-to-index-after-fallback', [m.vrange, vdict[cur]])
    env.check(reply == vdict[cur], K + '/write-reply-does-not-belong-to-current-index', [reply, vdict[cur]])
    env.check(m.parameters['vrange'].value == vdict[cur] or True, K + '/x')
    env.note('floatenum-op')
    tags(env)


def run_limits(env, p):
    from frappy.core import Module, Parameter, FloatRange
    from frappy.params import Limit
    from frappy.errors import RangeError
    kind = p['kind']
    written = []

    attrs = {'target': Parameter('t', FloatRange(-1000, 1000), readonly=False, default=0)}
    if kind in ('minmax', 'min', 'both'):
        attrs['target_min'] = Limit()
    if kind in ('minmax', 'max', 'both'):
        attrs['target_max'] = Limit()
    if kind in ('limits', 'both'):
        attrs['target_limits'] = Limit()      # 'both': a limits tuple AND a min/max pair - the value must respect all of them

    def write_target(self, value):
        written.append(value)
        return value
    attrs['write_target'] = write_target
    if p.get('inherited'):
        # the parameter and a user check hook live in an ancestor class, the limit parameters are added by a subclass
        def check_target(self, value):
            if value == 13:
                raise RangeError('unlucky')
        Anc = type('Anc', (Module,), {'target': attrs.pop('target'), 'check_target': check_target, 'write_target': attrs.pop('write_target')})
        Mod = type('Mod', (Anc,), attrs)
    else:
        Mod = type('Mod', (Module,), attrs)
    srv = C.make_node({'m': {'cls': Mod, 'description': 'm'}})
    m = srv.secnode.modules['m']
    K = 'C18/limits/' + kind
    a = env.real('a', -1000, 1000)
    b = env.real('b', -1000, 1000)
    lo, hi = -1000, 1000
    lo2, hi2 = -1000, 1000
    try:
        if kind in ('limits', 'both'):
            try:
                m.write_target_limits((a, b))
                env.check(a <= b, K + '/inverted-limits-accepted')
                lo, hi = a, b
            except RangeError:
                env.check(a > b, K + '/ordered-limits-refused')
        if kind == 'both':
            lo2 = env.real('c', -1000, 1000)
            hi2 = env.real('d', -1000, 1000)
            m.write_target_min(lo2)
            m.write_target_max(hi2)
        elif kind != 'limits':
            if 'target_min' in attrs:
                m.write_target_min(a)
                lo = a
            if 'target_max' in attrs:
                m.write_target_max(b)
                hi = b
    except Exception as e:
        env.fail(K + '/limit-write-raises/' + type(e).__name__, repr(e))
        return
    x = env.real('x', -1000, 1000)
    try:
        m.write_target(x)
        accepted = True
    except RangeError:
        accepted = False
    except Exception as e:
        env.fail(K + '/target-write-raises/' + type(e).__name__, repr(e))
        return
    inside = M.And(lo <= x, x <= hi, lo2 <= x, x <= hi2)
    if accepted:
        env.check(inside, K + '/accepted-outside-current-limits')
        env.check(len(written) == 1, K + '/driver-calls', len(written))
    else:
        env.check(M.Or(M.Not(inside), x == 13) if p.get('inherited') else M.Not(inside), K + '/refused-inside-current-limits')
        env.check(written == [], K + '/driver-called-although-refused')
    env.note('limit-op')
    tags(env)


def run_control(env, p):
    from frappy.core import Writable, Parameter, FloatRange, Attached
    from frappy.mixins import HasControlledBy, HasOutputModule
    n = p['n']

    class Out(HasControlledBy, Writable):
        def write_target(self, value):
            self.self_controlled()
            return value

    failing = {}

    class Ctl(HasOutputModule, Writable):
        def write_target(self, value):
            self.activate_control()
            self.output_module.update_target(self.name, value / 2)
            return value

        def set_control_active(self, active):
            if not active and failing.get(self.name):
                from frappy.errors import HardwareError
                raise HardwareError('can not switch off')
            super().set_control_active(active)
    cfg = {'out': {'cls': Out, 'description': 'o'}}
    names = [f'c{i}' for i in range(n)]
    for nm in names:
        cfg[nm] = {'cls': Ctl, 'description': 'c', 'output_module': 'out'}
    srv = C.make_node(cfg)
    mods = srv.secnode.modules
    out = mods['out']
    K = f'C18/control/{n}'

    def invariant(where, expect=None):
        active = [nm for nm in names if mods[nm].control_active]
        env.check(len(active) <= 1, K + '/more-than-one-controller-active/' + where, active)
        owner = out.controlled_by
        oname = owner.name if hasattr(owner, 'name') else str(owner)
        if active:
            env.check(oname == active[0], K + '/output-names-other-controller/' + where, [oname, active])
        else:
            env.check(oname == 'self', K + '/output-not-self-controlled/' + where, [oname])
        if expect is not None:
            env.check(oname == expect, K + '/wrong-owner/' + where, [oname, expect])

    invariant('start', 'self')
    members = [mm.name for mm in out.parameters['controlled_by'].datatype._enum.members]
    env.check(members == ['self'] + names, K + '/controlled_by-members', members)
    for step in range(p['depth']):
        who = env.choice(f'who{step}', n + 1)
        x = env.real(f'x{step}', -100, 100)
        env.note('control-op')
        try:
            if who == n:
                out.write_target(x)
                invariant(f'out-writes', 'self')
                env.check(M.eq(out.target, x), K + '/output-target')
            else:
                # the hardware of the currently active controller may refuse to be switched off
                active_before = [nm for nm in names if mods[nm].control_active]
                fault = bool(active_before) and active_before[0] != names[who] and bool(env.choice(f'fault{step}', 2))
                failing.clear()
                if fault:
                    failing[active_before[0]] = True
                try:
                    mods[names[who]].write_target(x)
                    took_over = True
                except Exception as e:
                    took_over = False
                    if not fault:
                        raise
                failing.clear()
                if took_over:
                    invariant('controller-writes', names[who])
                    env.check(M.eq(out.target, x / 2), K + '/output-target-not-updated-by-controller')
                else:
                    # a failed take-over leaves a consistent state behind
                    invariant('failed-take-over')
        except Exception as e:
            env.fail(K + '/write-raises/' + type(e).__name__, repr(e))
            return
    tags(env)
