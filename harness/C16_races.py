"""C16 -- request/reply pairing and atomic transactions with 2-3 concurrent callers

Logical threads (engine/cosched.py) call communicate / multicomm / writeline of
the real StringIO / BytesIO against one scripted device.  The communicator lock
(threading.RLock inside frappy.io) is cooperative; every send, recv, flush and
sleep of the fake connection is a synchronisation point (real I/O releases the
interpreter lock there).  The device answers every command with an echo of it,
so a reply handed to the wrong caller, a reply flushed as garbage by another
caller or a foreign command inside a transaction is visible."""
import common as C
import C16_communicator as B

PROPERTY = 'C16'
FUNCTIONS = ['frappy.io.StringIO.{communicate,writeline,multicomm} (2-3 threads)', 'frappy.io.BytesIO.{communicate,multicomm} (2-3 threads)',
             'frappy.io.IOBase.check_connection (concurrent reconnect)']
ASSUMPTIONS = ['schedules: every interleaving of 2-3 caller threads at synchronisation points (acquire/release of the communicator lock and the '
               'module access lock, every send/recv/flush of the fake connection, every sleep) with at most 2 (quick) / 3 (thorough) pre-emptions',
               'device: echoes each command as its reply immediately, or (slow) only at the second recv after the command; '
               'one scenario drops the connection inside a transaction']
REQUIRED_TAGS = ['race/preempted', 'race/paired', 'race/transaction']
LIMITS = {'quick': {'max_paths': 60000, 'max_s': 200}, 'thorough': {'max_paths': 600000, 'max_s': 900}}


def cases(tier):
    out = []
    pre = 3 if tier == 'thorough' else 2
    for kind in ('string', 'bytes'):
        for slow in (False, True):
            for plan in ('c+c', 'c+c+c', 'm+c', 'm+c+c', 'm+m', 'w+c', 'm+w'):
                if kind == 'bytes' and 'w' in plan:
                    continue
                out.append({'fn': 'run_race', 'id': f'race/{kind}/{"slow" if slow else "fast"}/{plan}',
                            'params': {'kind': kind, 'slow': slow, 'plan': plan, 'preempt': pre, 'drop': False}})
        for plan in ('c+c', 'm+c'):
            out.append({'fn': 'run_race', 'id': f'race/{kind}/drop/{plan}', 'params': {'kind': kind, 'slow': False, 'plan': plan, 'preempt': pre,
                                                                                      'drop': True}})
        out.append({'fn': 'run_poller_vs_transaction', 'id': f'race/{kind}/poller-vs-transaction', 'params': {'kind': kind, 'preempt': pre}})
        for refuse in (0, 1, 2):
            out.append({'fn': 'run_reconnect_race', 'id': f'race/{kind}/reconnect/refuse{refuse}',
                        'params': {'kind': kind, 'refuse': refuse, 'preempt': pre}})
    return out


def run_race(env, p, body=None):
    import cosched
    import frappy.io as fio
    import frappy.modulebase as mb
    saved = fio.threading, mb.threading
    cosched.patch_threading(fio, mb)
    try:
        (body or _run_race)(env, p, cosched)
    finally:
        fio.threading, mb.threading = saved


def run_reconnect_race(env, p):
    run_race(env, p, _run_reconnect_race)


def run_poller_vs_transaction(env, p):
    run_race(env, p, _run_poller_vs_transaction)


def _run_poller_vs_transaction(env, p, cosched):
    """the poller reconnects (with an identification exchange) while a multi command transaction starts: nobody waits for ever"""
    from frappy.errors import CommunicationFailedError
    kind = p['kind']
    ident = [('*IDN?', 'ACME.*')] if kind == 'string' else [('I', 'A')]
    srv, io, dev, clock = B.make_io(env, kind, identification=ident)
    base = dev_conn_class()
    K = f'C16/race/{kind}/poller-vs-transaction'

    class RaceConn(base):
        scheme = 'fake'

        def send(self, data):
            cosched.yield_point('send')
            super().send(data)

        def recv(self):
            cosched.yield_point('recv')
            return super().recv()

        def flush_recv(self):
            cosched.yield_point('flush')
            return super().flush_recv()

    eol = b'\n' if kind == 'string' else b''

    def on_send(data):
        body = data[:-1] if eol else data
        if body in (b'*IDN?', b'I'):
            return [(b'ACME,1' if kind == 'string' else b'A') + eol]
        return [b'R' + body[1:] + eol]
    dev.on_send = on_send
    io.connectStart()
    io.closeConnection()
    clock.now = clock.now + io.pollinterval + 1
    results = {}

    def poller():
        try:
            io.doPoll()
            results['poller'] = 'ok'
        except Exception as e:
            results['poller'] = repr(e)

    def transaction():
        try:
            if kind == 'string':
                results['tx'] = list(io.multicomm([('Ca', True, 0), ('Cb', True, 0)]))
            else:
                results['tx'] = list(io.multicomm([(b'Ca', 2, 0), (b'Cb', 2, 0)]))
        except CommunicationFailedError as e:
            results['tx'] = repr(e)
    s = cosched.Sched(env, max_preempt=p['preempt'])
    s.spawn('poller', poller)
    s.spawn('tx', transaction)
    s.run()
    if s.preempts:
        env.note('race/preempted')
    env.check(s.deadlock is None, K + '/deadlock', [s.deadlock, [x for x in s.trace][-8:]])
    for t in s.threads:
        env.check(t.exc is None, K + '/thread-raised', [t.name, repr(t.exc)])
    env.check(len(results) == 2, K + '/caller-without-result', sorted(results))
    env.note('race/paired')
    env.note('race/transaction')


def _run_reconnect_race(env, p, cosched):
    """the device is disconnected, the reconnect interval has elapsed, 2 callers arrive at once: reconnection is attempted
    no more often than the interval allows, every caller gets its own reply or a communication error, callbacks run once"""
    from frappy.errors import CommunicationFailedError
    kind = p['kind']
    srv, io, dev, clock = B.make_io(env, kind)
    base = dev_conn_class()
    K = f'C16/race/{kind}/reconnect'

    class RaceConn(base):
        scheme = 'fake'

        def __init__(self, uri, *args, **kwargs):
            cosched.yield_point('connect')      # a connect attempt is I/O
            if dev.refuse > 0:
                dev.refuse -= 1
                dev.connect_ok = False
            else:
                dev.connect_ok = True
            super().__init__(uri, *args, **kwargs)

        def send(self, data):
            cosched.yield_point('send')
            super().send(data)

        def recv(self):
            cosched.yield_point('recv')
            return super().recv()

        def flush_recv(self):
            cosched.yield_point('flush')
            return super().flush_recv()

    eol = b'\n' if kind == 'string' else b''
    dev.on_send = lambda data: [b'R' + (data[:-1] if eol else data)[1:] + eol]
    dev.refuse = 0
    io.connectStart()
    calls = []
    io.registerReconnectCallback('cb', lambda: calls.append(clock.now) or True)
    io.closeConnection()
    clock.now = clock.now + io.pollinterval + 1       # the interval has elapsed
    dev.refuse = p['refuse']
    n0 = len(dev.connect_attempts)
    results = {}

    def make(tname, idx):
        def run():
            c = f'C{idx}' if kind == 'string' else b'C%d' % idx
            try:
                results[tname] = ('ok', c, io.communicate(c) if kind == 'string' else io.communicate(c, len(c)))
            except CommunicationFailedError as e:
                results[tname] = ('error', c, repr(e))
        return run

    s = cosched.Sched(env, max_preempt=p['preempt'])
    for i in range(2):
        s.spawn(f't{i}', make(f't{i}', i))
    s.run()
    env.check(s.deadlock is None, K + '/deadlock', s.deadlock)
    for t in s.threads:
        env.check(t.exc is None, K + '/caller-got-other-exception', [t.name, repr(t.exc)])
    if s.preempts:
        env.note('race/preempted')
    att = dev.connect_attempts[n0:]
    # virtual time does not advance during the run: at most one attempt fits into the interval
    env.check(len(att) <= 1 or max(att) - min(att) >= io.pollinterval, K + '/reconnect-attempts-closer-than-interval', att)
    env.check(len(att) >= 1, K + '/no-reconnect-attempt-although-interval-elapsed', att)
    for tname, res in sorted(results.items()):
        if res[0] == 'ok':
            env.note('race/paired')
            want = ('R' + res[1][1:]) if kind == 'string' else b'R' + res[1][1:]
            env.check(res[2] == want, K + '/reply-of-another-command', [tname, res])
            env.check(p['refuse'] == 0, K + '/call-succeeded-although-connect-was-refused', [tname, res])
    env.check(len(results) == 2, K + '/caller-without-result', sorted(results))
    if p['refuse'] == 0:
        env.check(io.is_connected is True, K + '/not-connected-after-successful-reconnect')
        env.check(len(calls) == 1, K + '/reconnect-callback-not-run-exactly-once', calls)
        env.check(any(r[0] == 'ok' for r in results.values()), K + '/no-caller-served-after-reconnect', sorted(results.items()))
    else:
        env.check(not calls, K + '/reconnect-callback-run-without-connection', calls)
    env.note('race/transaction')


def _run_race(env, p, cosched):
    from frappy.errors import CommunicationFailedError
    kind = p['kind']
    srv, io, dev, clock = B.make_io(env, kind)
    base = dev_conn_class()

    class RaceConn(base):
        scheme = 'fake'

        def send(self, data):
            cosched.yield_point('send')
            super().send(data)

        def recv(self):
            cosched.yield_point('recv')
            return super().recv()

        def flush_recv(self):
            cosched.yield_point('flush')
            return super().flush_recv()

    sleep0 = clock.sleep

    def sleep(t):
        cosched.yield_point('sleep')
        sleep0(t)
    clock.sleep = sleep
    eol = b'\n' if kind == 'string' else b''
    log = []          # ('send', thread, data) / ('reply-ready', data)
    delayed = []

    def on_send(data):
        me = cosched.Sched.current.me() if cosched.Sched.current else None
        log.append(('send', me.name if me else 'main', data))
        body = data[:-1] if eol else data
        if body.startswith(b'W'):
            return []             # a command without reply
        if p['drop'] and body.endswith(b'1'):
            dev.closed = True     # the peer drops the connection instead of answering the second command of the run
            return []
        reply = b'R' + body[1:] + eol
        if p['slow']:
            delayed.append([2, reply])
            return []
        return [reply]
    dev.on_send = on_send
    if p['slow']:
        recv0 = dev_recv_hook(dev, delayed)
    K = f'C16/race/{kind}'
    # connect in the controller thread
    io.connectStart()
    results = {}

    def cmd(tag):
        return f'C{tag}' if kind == 'string' else b'C' + tag.encode()

    def reply_of(c):
        return ('R' + c[1:]) if kind == 'string' else b'R' + c[1:]

    def make(tname, what, idx):
        def run():
            try:
                if what == 'c':
                    c = cmd(f'{idx}')
                    results[tname] = ('c', [c], [B.call(io, kind, c) if kind == 'string' else io.communicate(c, len(c))])
                elif what == 'm':
                    cs = [cmd(f'{idx}a'), cmd(f'{idx}b')]
                    if kind == 'string':
                        r = io.multicomm([(cs[0], True, 0.5), (cs[1], True, 0)])
                    else:
                        r = io.multicomm([(cs[0], len(cs[0]), 0.5), (cs[1], len(cs[1]), 0)])
                    results[tname] = ('m', cs, list(r))
                else:
                    c = f'W{idx}'
                    io.writeline(c)
                    results[tname] = ('w', [c], [])
            except CommunicationFailedError as e:
                results[tname] = ('error', type(e).__name__, repr(e))
        return run

    s = cosched.Sched(env, max_preempt=p['preempt'])
    for i, what in enumerate(p['plan'].split('+')):
        s.spawn(f't{i}', make(f't{i}', what, i))
    s.run()
    env.check(s.deadlock is None, K + '/deadlock', s.deadlock)
    for t in s.threads:
        env.check(t.exc is None, K + '/caller-got-other-exception', [t.name, repr(t.exc)])
    if s.preempts:
        env.note('race/preempted')
    env.log('schedule', [x for x in s.trace][:40])
    sends = [e for e in log if e[0] == 'send' and e[1] != 'main']
    for tname, res in sorted(results.items()):
        if res[0] == 'error':
            env.check(p['drop'], K + '/call-failed-although-device-answers', [tname, res])
            continue
        what, cs, replies = res
        env.note('race/paired')
        # every caller receives the reply to its own command
        env.check(list(replies) == [reply_of(c) for c in cs] or what == 'w', K + '/reply-of-another-command', [tname, cs, replies])
        if what == 'm':
            env.note('race/transaction')
            # the transaction is not interleaved with other traffic
            mine = [i for i, e in enumerate(sends) if e[1] == tname]
            env.check(mine == list(range(mine[0], mine[0] + len(mine))), K + '/transaction-interleaved',
                      [[(e[1], e[2]) for e in sends]])
    if not p['drop']:
        env.check(len(results) == len(s.threads), K + '/caller-without-result', sorted(results))
        # nothing that the device sent was thrown away as garbage
        env.check(not any(dev.flushed), K + '/reply-flushed-as-garbage', [x for x in dev.flushed if x])
    else:
        # every caller either has its own reply or a communication error; afterwards the state is visible
        env.check(len(results) == len(s.threads), K + '/caller-without-result', sorted(results))
        if any(r[0] == 'error' for r in results.values()):
            env.note('race/drop-seen')


def dev_conn_class():
    from frappy.lib.asynconn import AsynConn
    return AsynConn.SCHEME_MAP['fake']


def dev_recv_hook(dev, delayed):
    """slow device: a reply becomes readable only at the second recv after its command"""
    step0 = dev.step

    def step():
        for d in list(delayed):
            d[0] -= 1
            if d[0] <= 0:
                dev.pending.append(d[1])
                delayed.remove(d)
        return 0.25
    dev.step = step
    return step0
