"""C06 -- generated module classes: the description is true of the behaviour for every flag combination

The class is generated per path with type(): two parameters (float and int) and
a command whose access mode (writable / readonly / constant) and export mode
(default, False, custom name with / without underscore) are chosen by symbolic
selectors, module level export on / off, datatype limits and the probe payload
symbolic."""
import dtmodel as M
import common as C

PROPERTY = 'C06'
FUNCTIONS = ['frappy.secnode.SecNode.get_descriptive_data on generated classes', 'frappy.modulebase.Module.__init__ (export names)',
             'frappy.params.{Parameter,Command}.for_export', 'frappy.protocol.dispatcher.Dispatcher.{handle_read,handle_change,handle_do,handle_activate}',
             'frappy.datatypes.get_datatype']
ASSUMPTIONS = ['generated classes: float parameter and int parameter x {writable, readonly, constant} x export {default, False, custom with / '
               'without underscore}, a command x export {default, False, custom}, all by symbolic selectors; datatype limits of the float parameter and the probe values '
               'symbolic; one described and one unexported module of the same class']
REQUIRED_TAGS = ['gen/described', 'gen/undescribed', 'gen/probe-accepted', 'gen/probe-refused']
LIMITS = {'quick': {'max_paths': 20000, 'max_s': 150}, 'thorough': {'max_paths': 200000, 'max_s': 600}}

ACCESS = ['writable', 'readonly', 'constant']
EXPORT = [('default', True), ('false', False), ('custom-us', '_zz'), ('custom-plain', 'q')]


def cases(tier):
    out = []
    for a1 in ACCESS:
        for e1 in range(len(EXPORT)):
            for a2 in ACCESS:
                out.append({'fn': 'run_generated', 'id': f'generated/{a1}/{EXPORT[e1][0]}/{a2}', 'params': {'a1': a1, 'e1': e1, 'a2': a2}})
    return out


def wire(name, mode):
    return {'default': '_' + name, 'false': None, 'custom-us': '_zz', 'custom-plain': 'q'}[mode]


def run_generated(env, p):
    from frappy.core import Module, Parameter, Command, FloatRange, IntRange
    from frappy.datatypes import get_datatype
    from frappy.errors import BadValueError
    K = 'C06/generated'
    lo = env.real('lo', -1000, 1000)
    hi = env.real('hi', -1000, 1000)
    env.assume(lo <= hi)
    ilo, ihi = -3, 12      # the int parameter has concrete limits, its probe is symbolic
    a1, (m1, x1) = p['a1'], EXPORT[p['e1']]
    a2 = p['a2']
    m2, x2 = [('default', True), ('false', False), ('custom-us', '_yy')][env.choice('e2', 3)]
    mc, xc = [('default', True), ('false', False), ('custom-us', '_cc')][env.choice('ec', 3)]
    log = []

    def par(doc, dtype, acc, exp, dflt):
        if acc == 'constant':
            return Parameter(doc, dtype, constant=dflt, export=exp)
        return Parameter(doc, dtype, readonly=acc == 'readonly', default=dflt, export=exp)

    def go(self):
        """generated command"""
        log.append('go')

    ns = {'p': par('float parameter', FloatRange(lo, hi), a1, x1, lo),
          'k': par('int parameter', IntRange(ilo, ihi), a2, x2, ilo),
          'act': Command(export=xc)(go)}
    Gen = type('Gen', (Module,), ns)
    srv = C.make_node({'m': {'cls': Gen, 'description': 'generated'}, 'u': {'cls': Gen, 'description': 'unexported', 'export': False}})
    disp = srv.dispatcher
    conn = C.Conn()
    d1 = disp.handle_request(conn, ('describe', '.', None))[2]
    d2 = disp.handle_request(conn, ('describe', '.', None))[2]
    env.check(M.eq(d1, d2), K + '/description-not-stable')
    env.check(list(d1['modules']) == ['m'], K + '/module-list', list(d1['modules']))
    acc = d1['modules']['m']['accessibles']
    w = {'p': wire('p', m1), 'k': {'default': '_k', 'false': None, 'custom-us': '_yy'}[m2], 'act': {'default': '_act', 'false': None, 'custom-us': '_cc'}[mc]}
    want = [w[n] for n in ('p', 'k', 'act') if w[n] is not None]
    env.check(sorted(acc) == sorted(want), K + '/described-accessibles-differ-from-exported', [sorted(acc), sorted(want)])
    mod = srv.secnode.modules['m']

    def request(action, spec, data=None):
        try:
            return disp.handle_request(conn, (action, spec, data)), None
        except Exception as e:
            return None, e

    x = env.real('x', -2000, 2000)
    for name, access, dflt, lim in (('p', a1, lo, (lo, hi)), ('k', a2, ilo, (ilo, ihi))):
        wn = w[name]
        if wn is not None and wn in acc:
            env.note('gen/described')
            entry = acc[wn]
            env.check(entry.get('readonly') is (access != 'writable'), K + '/readonly-flag', [name, access, entry.get('readonly')])
            if access == 'constant':
                env.check(M.eq(entry.get('constant'), dflt), K + '/constant-not-described', [name])
            else:
                env.check('constant' not in entry, K + '/constant-described-for-non-constant', name)
            info = entry['datainfo']
            env.check(M.eq(info.get('min'), lim[0]) and M.eq(info.get('max'), lim[1]), K + '/described-limits', [name])
            reply, err = request('read', 'm:' + wn)
            if env.check(err is None and reply[0] == 'reply', K + '/described-parameter-not-readable', [name, repr(err)]):
                env.check(M.eq(reply[2][0], dflt), K + '/read-value', name)
                # the emitted value is importable with the described datainfo
                try:
                    get_datatype(info).import_value(reply[2][0])
                except Exception as e:
                    env.fail(K + '/emitted-value-not-importable', [name, repr(e)])
            # the flags predict whether a change is refused; the described datainfo predicts which payloads are accepted
            probe = x if name == 'p' else env.int('n', -200, 200)
            reply, err = request('change', 'm:' + wn, probe)
            if access != 'writable':
                env.check(err is not None and type(err).__name__ == 'ReadOnlyError', K + '/change-of-readonly-not-refused', [name, access, repr(err)])
            else:
                described_ok = True
                try:
                    cdt = get_datatype(info)
                    cdt.validate(cdt.import_value(probe))
                except BadValueError:
                    described_ok = False
                env.note('gen/probe-accepted' if err is None else 'gen/probe-refused')
                env.check((err is None) == described_ok, K + '/described-datainfo-and-node-disagree', [name, described_ok, repr(err)])
        else:
            env.note('gen/undescribed')
        # names the description does not list are not reachable
        for other in ('_' + name, name, '_zz', 'q', '_yy'):
            if other == wn:
                continue
            if other in acc:       # the name of the OTHER parameter
                continue
            for action, data in (('read', None), ('change', 1), ('activate', None)):
                reply, err = request(action, 'm:' + other, data)
                env.check(err is not None and type(err).__name__ in ('NoSuchParameterError', 'NoSuchModuleError'), K + f'/undescribed-name-reachable/{action}',
                          [name, other, repr(reply), repr(err)])
    # command
    wc = w['act']
    for other in ('_act', 'act', '_cc'):
        n0 = len(log)
        reply, err = request('do', 'm:' + other)
        if other == wc:
            env.check(err is None and reply[0] == 'done' and len(log) == n0 + 1, K + '/described-command-not-executable', repr(err))
        else:
            env.check(err is not None and type(err).__name__ == 'NoSuchCommandError' and len(log) == n0, K + '/undescribed-command-reachable', [other, repr(err)])
    # the unexported module: nothing reachable
    for action, spec, data in (('read', 'u:_p', None), ('change', 'u:_p', 1), ('do', 'u:_act', None), ('activate', 'u', None), ('describe', 'u', None)):
        reply, err = request(action, spec, data)
        env.check(err is not None and type(err).__name__ in ('NoSuchModuleError', 'NoSuchParameterError', 'NoSuchCommandError'),
                  K + f'/unexported-module-reachable/{action}', [repr(reply), repr(err)])
