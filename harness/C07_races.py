"""C07 -- asynchronous messages never split another line (handler thread vs. driver threads)

The real TCPRequestHandler serves a request stream over a fake socket in one
logical thread while 1-2 driver threads assign parameters of an activated node
(update messages to the same connection).  The fake socket's sendall() writes
its data in two pieces with a synchronisation point in between (a real sendall
can be interrupted there), recv() is a synchronisation point, the handler's send
lock and the module / dispatcher locks are cooperative (engine/cosched.py)."""
import common as C
import C07_framing as B

PROPERTY = 'C07'
FUNCTIONS = ['frappy.protocol.interface.tcp.TCPRequestHandler.send_reply under the send lock (2-3 threads)',
             'frappy.protocol.interface.handler.RequestHandler.handle (concurrent with update broadcasts)']
ASSUMPTIONS = ['schedules: every interleaving of the handler thread and 1-2 driver threads at synchronisation points (send lock, dispatcher lock, '
               'update lock, recv, the middle of every sendall) with at most 2 (quick) / 3 (thorough) pre-emptions (one less with two driver threads)',
               'the value shown by a change reply while another thread assigns the same parameter is not constrained here']
REQUIRED_TAGS = ['race/preempted', 'race/async-update']
LIMITS = {'quick': {'max_paths': 60000, 'max_s': 200}, 'thorough': {'max_paths': 600000, 'max_s': 900}}

STREAMS = {'act-read': b'activate\nread m:a\n', 'act-change': b'activate\nchange m:_b 3\n', 'act-bad': b'activate\nchange m:_b {bad\nping x\n',
           'modact': b'activate m\nping 1\ndeactivate m\nping 2\n'}


def cases(tier):
    out = []
    for name in STREAMS:
        for drivers in ('b', 'bb', 'b+s'):
            pre = 3 if tier == 'thorough' else 2
            if drivers == 'b+s':
                pre -= 1      # three threads: one pre-emption less
            out.append({'fn': 'run_race', 'id': f'race/{name}/{drivers}', 'params': {'stream': name, 'drivers': drivers, 'preempt': pre}})
    return out


def run_race(env, p):
    import cosched
    import frappy.modulebase as mb
    import frappy.protocol.dispatcher as dp
    import frappy.protocol.interface.handler as hm
    saved = mb.threading, dp.threading, hm.threading
    cosched.patch_threading(mb, dp, hm)
    try:
        _run_race(env, p, cosched)
    finally:
        mb.threading, dp.threading, hm.threading = saved


def _run_race(env, p, cosched):
    from frappy.protocol.interface.tcp import TCPRequestHandler
    srv = B.build()
    mod = srv.secnode.modules['m']
    K = 'C07/race'
    stream = STREAMS[p['stream']]

    class Sock(B.FakeSocket):
        def recv(self, n):
            cosched.yield_point('recv')
            return super().recv(n)

        def sendall(self, data):
            half = len(data) // 2
            self.out += data[:half]
            cosched.yield_point('sendall')
            self.out += data[half:]

    sock = Sock([stream])

    def handler():
        TCPRequestHandler(sock, ('1.2.3.4', 5), C.InterfaceStub(srv))

    def driver(assignments):
        def run():
            for par, val in assignments:
                setattr(mod, par, val)
        return run

    plan = {'b': [[('b', 4.5)]], 'bb': [[('b', 4.5), ('b', 5.5)]], 'b+s': [[('b', 4.5)], [('s', 'text')]]}[p['drivers']]
    s = cosched.Sched(env, max_preempt=p['preempt'])
    s.spawn('handler', handler)
    for i, a in enumerate(plan):
        s.spawn(f'drv{i}', driver(a))
    s.run()
    env.check(s.deadlock is None, K + '/deadlock', s.deadlock)
    for t in s.threads:
        env.check(t.exc is None, K + '/thread-raised', [t.name, repr(t.exc)])
    if s.preempts:
        env.note('race/preempted')
    out = sock.out
    env.check(out.endswith(b'\n') or not out, K + '/stream-does-not-end-with-a-complete-line', out[-40:])
    lines = out.split(b'\n')[:-1]
    replies = []
    for ln in lines:
        try:
            msg = B.parse_reply(ln)
        except Exception as e:
            env.fail(K + '/line-split-or-malformed', [ln[:80], repr(e)])
            return
        if msg[0] in ('update', 'error_update'):
            env.note('race/async-update')
            env.check(msg[1] in ('m:a', 'm:_b', 'm:_s', 'm:value', 'm:status') or msg[1].startswith('m:'), K + '/update-of-unknown-parameter', msg[1])
            # an update line is exactly what the encoder gives for a cache state
            env.check(isinstance(msg[2], list) and len(msg[2]) == 2 and isinstance(msg[2][1], dict), K + '/update-line-mangled', ln[:80])
        else:
            replies.append(msg)
    # exactly one reply per request line, in request order
    want = {'act-read': ['active', 'reply'], 'act-change': ['active', 'changed'], 'act-bad': ['active', 'error_change', 'pong'],
            'modact': ['active', 'pong', 'inactive', 'pong']}[p['stream']]
    env.check([r[0] for r in replies] == want, K + '/replies-not-one-per-request-in-order', [[r[0] for r in replies], want])
