"""C08 -- activation and deactivation boundaries (sequential histories; thread schedules: C08_races.py)

real Dispatcher subscription tables, activate/deactivate/*IDN?/disconnect with
global, module and parameter scopes on two connections, interleaved (in
sequence) with driver updates; modules 'm' and 'mm' have prefix related names."""
import dtmodel as M
import common as C

PROPERTY = 'C08'
FUNCTIONS = ['frappy.protocol.dispatcher.Dispatcher.{handle_activate,handle_deactivate,handle__ident,subscribe,unsubscribe,reset_connection,'
             'remove_connection,broadcast_event,announce_update}', 'frappy.protocol.dispatcher.make_update', 'frappy.modulebase.Module.announceUpdate']
ASSUMPTIONS = ['histories of 3 (quick) / 4 (thorough) steps chosen by symbolic selectors out of activate/deactivate x {global, m, mm, m:_a, mm:_a, '
               'bad names}, *IDN?, disconnect on 2 connections and updates of 4 parameters with symbolic values',
               'sequential histories here; an activation / deactivation racing with concurrently running updates is explored by harness/C08_races.py']
REQUIRED_TAGS = ['delivered', 'not-delivered', 'snapshot', 'refused']
LIMITS = {'quick': {'max_paths': 60000, 'max_s': 150}, 'thorough': {'max_paths': 900000, 'max_s': 700}}

SCOPES = [None, 'm', 'mm', 'm:_a', 'mm:_a', 'm:_zz', 'zz', 'm:_h', 'hid']
GOOD_SCOPES = SCOPES[:5]
QUICK_SCOPES = [None, 'm', 'm:_a', 'mm:_a', 'm:_zz', 'hid']
PARAMS = [('m', 'a'), ('m', 'b'), ('mm', 'a'), ('mm', 'h')]
KINDS = ['activate', 'deactivate', 'idn', 'disconnect', 'update']


def cases(tier):
    depth = 4 if tier == 'thorough' else 3
    out = []
    for k in KINDS:
        for k2 in KINDS:
            out.append({'fn': 'run_history', 'id': f'{k}-{k2}', 'params': {'first': [k, k2], 'depth': depth,
                                                                       'scopes': QUICK_SCOPES}})
    if tier == 'thorough':
        for k in KINDS:
            for k2 in KINDS:
                out.append({'fn': 'run_history', 'id': f'all-scopes/{k}-{k2}', 'params': {'first': [k, k2], 'depth': 3, 'scopes': SCOPES}})
    return out


def build():
    from frappy.core import Module, Parameter, FloatRange

    class Mod(Module):
        a = Parameter('a', FloatRange(), readonly=False, default=0)
        b = Parameter('b', FloatRange(), readonly=False, default=0)
        h = Parameter('unexported', FloatRange(), readonly=False, default=0, export=False)
    return C.make_node({'m': {'cls': Mod, 'description': 'm'}, 'mm': {'cls': Mod, 'description': 'mm'},
                        'hid': {'cls': Mod, 'description': 'hidden', 'export': False}})


def covered(model, ci, mod, par):
    sc = model[ci]
    return None in sc or mod in sc or f'{mod}:_{par}' in sc


def scope_params(scope):
    """exported parameters in a scope, in description order"""
    if scope is None:
        return [('m', 'a'), ('m', 'b'), ('mm', 'a'), ('mm', 'b')]
    if ':' in scope:
        mod, par = scope.split(':_')
        return [(mod, par)]
    return [(scope, 'a'), (scope, 'b')]


def final_phase(env, disp, mods, conns, model, K, alive):
    """after the matching deactivate of every scope a connection still holds, nothing is delivered to it any more
    (finds subscriptions that leaked into the tables without ever being requested)"""
    for ci, c in enumerate(conns):
        if not alive[ci]:
            continue
        snapshot = set(model[ci])
        for scope in sorted(snapshot, key=str):
            disp.handle_request(c, ('deactivate', scope, None))
        n0 = len(c.sent)
        for mo, pa in PARAMS:
            setattr(mods[mo], pa, mods[mo].parameters[pa].value + 1)
        env.check(len(c.sent) == n0, K + '/update-delivered-after-all-scopes-were-deactivated',
                  [ci, sorted(map(str, snapshot)), [m[1] for m in c.sent[n0:]]])
        # restore the scopes for the remaining checks
        for scope in sorted(snapshot, key=str):
            disp.handle_request(c, ('activate', scope, None))


def run_history(env, p):
    srv = build()
    disp = srv.dispatcher
    mods = srv.secnode.modules
    conns = [C.Conn('c0'), C.Conn('c1')]
    for c in conns:
        disp.add_connection(c)
    model = [set(), set()]
    alive = [True, True]
    K = 'C08'
    last = [{}, {}]    # per connection: last message per parameter
    for step in range(p['depth']):
        kind = p['first'][step] if step < len(p['first']) else KINDS[env.choice(f'kind{step}', len(KINDS))]
        n0 = [len(c.sent) for c in conns]
        if kind in ('activate', 'deactivate'):
            ci = env.choice(f'conn{step}', 2)
            scope = p['scopes'][env.choice(f'scope{step}', len(p['scopes']))]
            # use the dispatcher directly with our recording connection (the handler loop is C07's subject)
            try:
                reply = disp.handle_request(conns[ci], (kind, scope, None))
                err = None
            except Exception as e:
                reply, err = None, e
            new = conns[ci].sent[n0[ci]:]
            if kind == 'activate':
                if scope in GOOD_SCOPES:
                    env.note('snapshot')
                    env.check(err is None and reply[0] == 'active' and reply[1] == scope, K + '/activate-reply', [scope, repr(err), reply])
                    want = scope_params(scope)
                    got = [m[1] for m in new]
                    env.check(all(m[0] in ('update', 'error_update') for m in new), K + '/snapshot-foreign-message')
                    env.check(got == [f'{mo}:_{pa}' for mo, pa in want], K + '/snapshot-not-exactly-one-update-per-parameter', [scope, got])
                    for (mo, pa), msg in zip(want, new):
                        env.check(M.eq(msg[2][0], mods[mo].parameters[pa].value), K + '/snapshot-value-not-current', [mo, pa])
                    model[ci].add(scope)
                else:
                    env.note('refused')
                    env.check(err is not None, K + '/activate-of-undescribed-scope-accepted', scope)
                    if err is not None:
                        env.check(type(err).__name__ in ('NoSuchModuleError', 'NoSuchParameterError'), K + '/activate-error-class',
                                  [scope, type(err).__name__])
                    env.check(new == [], K + '/messages-for-refused-activate', [scope, new])
            else:
                env.check(err is None and reply[0] == 'inactive', K + '/deactivate-reply', [scope, repr(err), reply])
                env.check(new == [], K + '/messages-on-deactivate')
                if scope is None:
                    model[ci].discard(None)
                elif ':' in scope:
                    model[ci].discard(scope)
                else:
                    model[ci] = {s for s in model[ci] if s is None or not (s == scope or s.startswith(scope + ':'))}
            other = 1 - ci
            env.check(len(conns[other].sent) == n0[other], K + '/other-connection-got-messages')
        elif kind == 'idn':
            ci = env.choice(f'conn{step}', 2)
            reply = disp.handle_request(conns[ci], ('*IDN?', None, None))
            env.check(reply[0].startswith('ISSE'), K + '/idn-reply')
            model[ci] = set()
        elif kind == 'disconnect':
            ci = env.choice(f'conn{step}', 2)
            disp.remove_connection(conns[ci])
            model[ci] = set()
            alive[ci] = False
        else:
            mo, pa = PARAMS[env.choice(f'param{step}', len(PARAMS))]
            x = env.real(f'x{step}', -1000, 1000)
            env.assume(x != mods[mo].parameters[pa].value)   # a real change (omission of unchanged values is C05's subject)
            setattr(mods[mo], pa, x)
            for ci, c in enumerate(conns):
                new = c.sent[n0[ci]:]
                want = pa != 'h' and covered(model, ci, mo, pa)
                if want:
                    env.note('delivered')
                    ok = len(new) == 1 and new[0][0] == 'update' and new[0][1] == f'{mo}:_{pa}'
                    env.check(ok, K + '/in-scope-update-not-delivered-exactly-once', [ci, mo, pa, sorted(map(str, model[ci])), len(new)])
                    if ok:
                        env.check(M.eq(new[0][2][0], x), K + '/delivered-value-differs')
                else:
                    env.note('not-delivered')
                    env.check(new == [], K + '/out-of-scope-update-delivered', [ci, mo, pa, sorted(map(str, model[ci])), len(new)])
        for ci, c in enumerate(conns):
            for msg in c.sent[n0[ci]:]:
                if msg[0] in ('update', 'error_update'):
                    last[ci][msg[1]] = msg
    nfin = [len(c.sent) for c in conns]
    final_phase(env, disp, mods, conns, model, K, alive)
    for ci, c in enumerate(conns):
        for msg in c.sent[nfin[ci]:]:
            if msg[0] in ('update', 'error_update'):
                last[ci][msg[1]] = msg
    # once things are quiet: for every parameter still in scope, the last message held equals the cache
    for ci in range(2):
        for mo, pa in PARAMS:
            if pa != 'h' and covered(model, ci, mo, pa):
                key = f'{mo}:_{pa}'
                held = last[ci].get(key)
                env.check(held is not None and M.eq(held[2][0], mods[mo].parameters[pa].value), K + '/last-message-differs-from-cache', [ci, key])
