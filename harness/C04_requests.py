"""C04 -- no invalid, forbidden or out-of-limit request ever reaches the driver

real Dispatcher + real SecNode + real RequestHandler loop over a fake-driver
module; request sequences of <= 3 requests with symbolic numeric payloads;
earlier requests move the dynamic limits to symbolic positions."""
import dtmodel as M
import common as C

PROPERTY = 'C04'
FUNCTIONS = ['frappy.protocol.dispatcher.Dispatcher.{handle_request,handle_change,handle_do,handle_read,_setParameterValue,_execute_command}',
             'frappy.protocol.interface.handler.RequestHandler.handle', 'frappy.modulebase.HasAccessibles.__init_subclass__ (write/read wrappers)',
             'frappy.modulebase.Module.{announceUpdate,checkLimits,__init__}', 'frappy.params.Command.do', 'frappy.datatypes.*.{import_value,validate}']
ASSUMPTIONS = ['one fixed catalogue module class (parameters of every leaf kind, struct, array, readonly, constant, unexported, '
               'custom export name, _min/_max/_limits limit parameters, a check_ hook, commands with no/tuple/struct/scalar argument) '
               'and an unexported module; datatype limits of the float/int parameters and the check threshold are symbolic',
               'requests are fed as decoded triples to the real handler loop (JSON text parsing is C07)',
               'sequential requests only; the dispatcher lock is not analysed']
REQUIRED_TAGS = ['reached-driver', 'refused']
ACCEPTED_FLAGS = {'hash-of-nonintegral-real': 'see C01'}
LIMITS = {'quick': {'max_paths': 3000, 'max_s': 100}, 'thorough': {'max_paths': 40000, 'max_s': 600}}

PAYLOAD_ERRORS = {'WrongType', 'RangeError'}


def build_node(env, symbolic=('pf', 'pi', 'pk')):
    from frappy.core import Module, Parameter, Command, FloatRange, IntRange, EnumType, StructOf, ArrayOf, StringType, \
        TupleOf, BoolType, ScaledInteger, BLOBType
    from frappy.params import Limit
    from frappy.errors import RangeError
    # limits are symbolic for the parameter the request sequence addresses, concrete otherwise
    lo, hi, ilo, ihi, thr = -5.5, 7.25, -3, 12, 1.5
    if 'pf' in symbolic:
        lo = env.real('pf.lo', -1e6, 1e6)
        hi = env.real('pf.hi', -1e6, 1e6)
        env.assume(lo <= hi)
    if 'pi' in symbolic:
        ilo = env.int('pi.lo', -1000, 1000)
        ihi = env.int('pi.hi', -1000, 1000)
        env.assume(ilo <= ihi)
    if 'pk' in symbolic:
        thr = env.real('pk.threshold', -100, 100)
    log = []

    class Drv(Module):
        pf = Parameter('float', FloatRange(lo, hi), readonly=False, default=lo)
        pi = Parameter('int', IntRange(ilo, ihi), readonly=False, default=ilo)
        pbig = Parameter('wide int', IntRange(-(1 << 63), 1 << 63), readonly=False, default=0)
        pe = Parameter('enum', EnumType('e', a=1, b=2, c=5), readonly=False, default=1)
        pb = Parameter('bool', BoolType(), readonly=False, default=False)
        pstr = Parameter('string', StringType(0, 3), readonly=False, default='')
        ps = Parameter('struct', StructOf(x=FloatRange(-10, 10), n=IntRange(0, 5), optional=['n']), readonly=False,
                       default={'x': 0, 'n': 0})
        ps2 = Parameter('struct without optional members', StructOf(x=FloatRange(-10, 10), n=IntRange(0, 5), optional=[]),
                        readonly=False, default={'x': 0, 'n': 0})
        pa = Parameter('array', ArrayOf(IntRange(0, 9), 0, 3), readonly=False, default=[])
        psc = Parameter('scaled', ScaledInteger(0.1, 0, 10), readonly=False, default=1.0)
        pbl = Parameter('blob', BLOBType(0, 4), readonly=False, default=b'')
        ptu = Parameter('tuple', TupleOf(IntRange(0, 5), StringType(0, 3)), readonly=False, default=(0, ''))
        ro = Parameter('readonly', FloatRange(), default=1.5)
        pc = Parameter('constant', FloatRange(), constant=2.5)
        hidden = Parameter('unexported', FloatRange(), readonly=False, default=0, export=False)
        cust = Parameter('custom name', FloatRange(), readonly=False, default=0, export='_other')
        target = Parameter('with min/max', FloatRange(-1000, 1000), readonly=False, default=0)
        target_min = Limit()
        target_max = Limit()
        x = Parameter('with limits', FloatRange(-1000, 1000), readonly=False, default=0)
        x_limits = Limit()
        pk = Parameter('with check hook', FloatRange(-100, 100), readonly=False, default=0)
        nowrite = Parameter('writable without write method', FloatRange(0, 1), readonly=False, default=0)

        def check_pk(self, value):
            if value > thr:
                raise RangeError('above threshold')

        @Command()
        def cmd0(self):
            """no argument"""
            log.append(('cmd0',))

        @Command((FloatRange(0, 10), IntRange(0, 5)), result=FloatRange())
        def cmdt(self, a, b):
            """tuple argument"""
            log.append(('cmdt', a, b))
            return a + b

        @Command(StructOf(x=FloatRange(0, 10), n=IntRange(0, 5)), result=IntRange())
        def cmds(self, x, n=1):
            """struct argument"""
            log.append(('cmds', x, n))
            return n

        @Command(StructOf(x=FloatRange(0, 10), n=IntRange(0, 5)), result=IntRange())
        def cmds2(self, x, n):
            """struct argument, no optional members"""
            log.append(('cmds2', x, n))
            return n

        @Command(FloatRange(0, 10), result=FloatRange(0, 10))
        def cmd1(self, v):
            """scalar argument"""
            log.append(('cmd1', v))
            return v

        @Command(export=False)
        def hiddencmd(self):
            """unexported"""
            log.append(('hiddencmd',))

    for pname in ('psc', 'pbl', 'ptu', 'pf', 'pi', 'pbig', 'pe', 'pb', 'pstr', 'ps', 'ps2', 'pa', 'hidden', 'cust', 'target', 'target_min', 'target_max',
                  'x', 'x_limits', 'pk', 'ro', 'pc'):
        def w(self, value, pname=pname):
            log.append((pname, value))
            return None
        w.__name__ = 'write_' + pname
        setattr(Drv, 'write_' + pname, w)
    # setattr after class creation does not wrap: rebuild through a subclass so that the wrappers are generated

    class Drv2(Drv):
        pass

    class Hid(Drv2):
        pass

    srv = C.make_node({'m': {'cls': Drv2, 'description': 'd'}, 'hid': {'cls': Hid, 'description': 'h', 'export': False}})
    return srv, log, Spec(lo=lo, hi=hi, ilo=ilo, ihi=ihi, thr=thr)


class Spec:
    def __init__(self, **kw):
        self.__dict__.update(kw)


# request catalogue: name -> (action, specifier, payload description, expectation)
#   expectation: 'driver:<pname>' may reach driver entry <pname>; otherwise required error class set
REQS = {
    'pf-float': ('change', 'm:_pf', 'float', 'driver:pf'),
    'pf-int': ('change', 'm:_pf', 'int', 'driver:pf'),
    'pf-str': ('change', 'm:_pf', 'str12', PAYLOAD_ERRORS),
    'pf-none': ('change', 'm:_pf', 'none', PAYLOAD_ERRORS),
    'pf-list': ('change', 'm:_pf', 'list1', PAYLOAD_ERRORS),
    'pi-int': ('change', 'm:_pi', 'int', 'driver:pi'),
    'pbig-int': ('change', 'm:_pbig', 'bigint', 'driver:pbig'),
    'pi-float': ('change', 'm:_pi', 'float', 'driver:pi'),
    'pi-str': ('change', 'm:_pi', 'str12', PAYLOAD_ERRORS),
    'pe-int': ('change', 'm:_pe', 'smallint', 'driver:pe'),
    'pe-name': ('change', 'm:_pe', "lit:'b'", 'driver:pe'),
    'pe-badname': ('change', 'm:_pe', "lit:'zz'", PAYLOAD_ERRORS),
    'pb-int': ('change', 'm:_pb', 'smallint', 'driver:pb'),
    'pb-bool': ('change', 'm:_pb', 'bool', 'driver:pb'),
    'pstr-ok': ('change', 'm:_pstr', "lit:'ab'", 'driver:pstr'),
    'pstr-long': ('change', 'm:_pstr', "lit:'abcd'", PAYLOAD_ERRORS),
    'pstr-int': ('change', 'm:_pstr', 'int', PAYLOAD_ERRORS),
    'ps-full': ('change', 'm:_ps', ['dict', {'x': 'float', 'n': 'int'}], 'driver:ps'),
    'ps-partial': ('change', 'm:_ps', ['dict', {'x': 'float'}], 'driver:ps'),
    'ps-only-n': ('change', 'm:_ps', ['dict', {'n': 'int'}], PAYLOAD_ERRORS),
    'ps-unknown': ('change', 'm:_ps', ['dict', {'x': 'float', 'zz': 'int'}], PAYLOAD_ERRORS),
    'ps-str': ('change', 'm:_ps', 'strab', PAYLOAD_ERRORS),
    'ps2-full': ('change', 'm:_ps2', ['dict', {'x': 'float', 'n': 'int'}], 'driver:ps2'),
    'ps2-partial': ('change', 'm:_ps2', ['dict', {'x': 'float'}], PAYLOAD_ERRORS),
    'cmds2': ('do', 'm:_cmds2', ['dict', {'x': 'float', 'n': 'int'}], 'driver:cmds2'),
    'cmds2-partial': ('do', 'm:_cmds2', ['dict', {'x': 'float'}], PAYLOAD_ERRORS),
    'pa-ok': ('change', 'm:_pa', ['list', ['int', 'int']], 'driver:pa'),
    'pa-long': ('change', 'm:_pa', ['list', ['int', 'int', 'int', 'int']], PAYLOAD_ERRORS),
    'pa-str': ('change', 'm:_pa', 'strab', PAYLOAD_ERRORS),
    'psc-int': ('change', 'm:_psc', 'int', 'driver:psc'),
    'psc-float': ('change', 'm:_psc', 'float', 'driver:psc'),
    'psc-str': ('change', 'm:_psc', 'str12', PAYLOAD_ERRORS),
    'pbl-ok': ('change', 'm:_pbl', "lit:'YWI='", 'driver:pbl'),
    'pbl-bad': ('change', 'm:_pbl', "lit:'YW I='", PAYLOAD_ERRORS),
    'pbl-long': ('change', 'm:_pbl', "lit:'YWJjZGU='", PAYLOAD_ERRORS),
    'pbl-int': ('change', 'm:_pbl', 'int', PAYLOAD_ERRORS),
    'ptu-ok': ('change', 'm:_ptu', ['list', ['int', "lit:'ab'"]], 'driver:ptu'),
    'ptu-short': ('change', 'm:_ptu', ['list', ['int']], PAYLOAD_ERRORS),
    'ptu-long': ('change', 'm:_ptu', ['list', ['int', "lit:'ab'", 'int']], PAYLOAD_ERRORS),
    'ptu-str': ('change', 'm:_ptu', 'strab', PAYLOAD_ERRORS),
    'ro': ('change', 'm:_ro', 'float', {'ReadOnly'}),
    'const': ('change', 'm:_pc', 'float', {'ReadOnly'}),
    'hidden-attr': ('change', 'm:hidden', 'float', {'NoSuchParameter'}),
    'hidden-us': ('change', 'm:_hidden', 'float', {'NoSuchParameter'}),
    'cust-attr': ('change', 'm:cust', 'float', {'NoSuchParameter'}),
    'cust-us': ('change', 'm:_cust', 'float', {'NoSuchParameter'}),
    'cust-export': ('change', 'm:_other', 'float', 'driver:cust'),
    'internal-pf': ('change', 'm:pf', 'float', {'NoSuchParameter'}),
    'nomodule': ('change', 'zz:_pf', 'float', {'NoSuchModule'}),
    'hidmodule': ('change', 'hid:_pf', 'float', {'NoSuchModule', 'NoSuchParameter'}),
    'noparam': ('change', 'm:zz', 'float', {'NoSuchParameter'}),
    'cmd-as-param': ('change', 'm:_cmd0', 'float', {'NoSuchParameter'}),
    'nospec': ('change', None, 'float', {'ProtocolError'}),
    'target': ('change', 'm:target', 'float', 'driver:target'),
    'target-default': ('change', 'm', 'float', 'driver:target'),
    'target_min': ('change', 'm:target_min', 'float', 'driver:target_min'),
    'target_max': ('change', 'm:target_max', 'float', 'driver:target_max'),
    'x': ('change', 'm:_x', 'float', 'driver:x'),
    'x_limits': ('change', 'm:_x_limits', ['list', ['float', 'float']], 'driver:x_limits'),
    'pk': ('change', 'm:_pk', 'float', 'driver:pk'),
    'nowrite': ('change', 'm:_nowrite', 'float', 'cache:nowrite'),
    'cmd0': ('do', 'm:_cmd0', 'none', 'driver:cmd0'),
    'cmd0-arg': ('do', 'm:_cmd0', 'float', PAYLOAD_ERRORS),
    'cmdt': ('do', 'm:_cmdt', ['list', ['float', 'int']], 'driver:cmdt'),
    'cmdt-short': ('do', 'm:_cmdt', ['list', ['float']], PAYLOAD_ERRORS),
    'cmdt-long': ('do', 'm:_cmdt', ['list', ['float', 'int', 'int']], PAYLOAD_ERRORS),
    'cmdt-none': ('do', 'm:_cmdt', 'none', PAYLOAD_ERRORS),
    'cmdt-str': ('do', 'm:_cmdt', 'strab', PAYLOAD_ERRORS),
    'cmds': ('do', 'm:_cmds', ['dict', {'x': 'float', 'n': 'int'}], 'driver:cmds'),
    'cmds-partial': ('do', 'm:_cmds', ['dict', {'x': 'float'}], 'driver:cmds'),
    'cmds-unknown': ('do', 'm:_cmds', ['dict', {'x': 'float', 'zz': 'int'}], PAYLOAD_ERRORS),
    'cmd1': ('do', 'm:_cmd1', 'float', 'driver:cmd1'),
    'cmd1-str': ('do', 'm:_cmd1', 'str12', PAYLOAD_ERRORS),
    'hiddencmd': ('do', 'm:_hiddencmd', 'none', {'NoSuchCommand'}),
    'hiddencmd-attr': ('do', 'm:hiddencmd', 'none', {'NoSuchCommand'}),
    'param-as-cmd': ('do', 'm:_pf', 'none', {'NoSuchCommand'}),
    'nocmd': ('do', 'm:zz', 'none', {'NoSuchCommand'}),
    'cmd-nomodule': ('do', 'zz:_cmd0', 'none', {'NoSuchModule'}),
    'cmd-hidmodule': ('do', 'hid:_cmd0', 'none', {'NoSuchModule', 'NoSuchCommand'}),
}
PRE = {
    'none': [],
    'minmax': ['target_min', 'target_max'],
    'min': ['target_min'],
    'limits': ['x_limits'],
    'struct': ['ps-full'],
    'struct-then-read-error': ['ps-full', '@ps-read-error'],      # the cached struct is in error state when the partial change arrives
}


def cases(tier):
    out = []
    for name in REQS:
        pres = ['none']
        if name in ('target', 'target-default'):
            pres = ['none', 'minmax', 'min']
        elif name == 'x':
            pres = ['none', 'limits']
        elif name in ('ps-partial', 'ps-only-n'):
            pres = ['none', 'struct', 'struct-then-read-error']
        for pre in pres:
            out.append({'fn': 'run_requests', 'id': f'{name}/pre-{pre}', 'params': {'req': name, 'pre': pre}})
    for layout in ('hook-in-ancestor', 'limits-tuple-in-subclass'):
        out.append({'fn': 'run_inherited_limits', 'id': f'inherited-limits/{layout}', 'params': {'layout': layout}})
    return out


def run_inherited_limits(env, p):
    """limit parameters declared in a subclass of the class that carries the check_ hook (and vice versa) are still enforced"""
    from frappy.core import Module, Parameter, FloatRange
    from frappy.params import Limit
    from frappy.errors import RangeError
    log = []
    layout = p['layout']

    class Anc(Module):
        a = Parameter('a', FloatRange(-100, 100), readonly=False, default=0)
        if layout in ('hook-in-ancestor', 'both-in-ancestor'):
            def check_a(self, value):
                if value == 13:
                    raise RangeError('unlucky')
        if layout == 'both-in-ancestor':
            a_min = Limit()
            a_max = Limit()

        def write_a(self, value):
            log.append(('a', value))
            return value

    if layout == 'hook-in-ancestor':
        class Lim(Anc):
            a_min = Limit()
            a_max = Limit()
    elif layout == 'limits-tuple-in-subclass':
        class Lim(Anc):
            a_limits = Limit()
    else:
        class Lim(Anc):
            pass
    srv = C.make_node({'lm': {'cls': Lim, 'description': 'lm'}})
    K = 'C04/inherited-limits/' + layout
    lo = env.real('lo', -100, 100)
    hi = env.real('hi', -100, 100)
    env.assume(lo <= hi)
    x = env.real('x', -100, 100)
    if layout == 'limits-tuple-in-subclass':
        reqs = [('change', 'lm:_a_limits', [lo, hi]), ('change', 'lm:_a', x)]
    else:
        reqs = [('change', 'lm:_a_min', lo), ('change', 'lm:_a_max', hi), ('change', 'lm:_a', x)]
    h, per = C.scripted_handler(srv, reqs)
    for rep in per[:-1]:
        env.check(rep[0][0] == 'changed', K + '/limit-change-refused', rep[0][:2])
    reply = per[-1][0]
    accepted = reply[0] == 'changed'
    inside = M.And(lo <= x, x <= hi)
    if accepted:
        env.note('reached-driver')
        env.check(inside, K + '/dynamic-limit-bypassed')
        env.check(log[-1:] == [('a', x)] or M.eq(log[-1][1], x), K + '/driver-got-other-value')
    else:
        env.note('refused')
        env.check(reply[2][0] == 'RangeError', K + '/wrong-error-class', reply[2][0])
        if layout in ('hook-in-ancestor', 'both-in-ancestor'):
            env.check(M.Or(M.Not(inside), x == 13), K + '/refused-inside-limits')
        else:
            env.check(M.Not(inside), K + '/refused-inside-limits')
        env.check(not [e for e in log if e[0] == 'a'], K + '/driver-called-although-refused')


def snapshot(mod):
    return {n: (p.value, p.readerror, p.timestamp) for n, p in mod.parameters.items()}


def run_requests(env, p):
    srv, log, spec = build_node(env, symbolic=[p['req'].split('-')[0]])
    mod = srv.secnode.modules['m']
    listener = C.Conn('listener')
    srv.dispatcher.handle_request(listener, ('activate', None, None))
    seq = PRE[p['pre']] + [p['req']]
    reqs = []
    cands = []
    driver_actions = {}
    for i, name in enumerate(list(seq)):
        if name.startswith('@'):
            driver_actions[len(reqs)] = name
            continue
        action, specifier, pdesc, _ = REQS[name]
        cand = M.make(env, pdesc, f'r{i}', box={'f': 200, 'i': 200} if 'psc' in name else {'f': 2000, 'i': 2000})
        cands.append(cand)
        reqs.append((action, specifier, cand.value))
    states = []
    # feed one request at a time to be able to look at the state in between
    replies = []
    names = [n for n in seq if not n.startswith('@')]
    for i, rq in enumerate(reqs):
        if i in driver_actions:
            # the driver reports a read failure for the struct parameter: the cached value stays, in error state
            from frappy.errors import HardwareError
            mod.announceUpdate('ps', None, HardwareError('read failed'))
        before = snapshot(mod)
        nlog, nupd = len(log), len(listener.sent)
        hidlog = None
        h, per = C.scripted_handler(srv, [rq])
        replies.append(per[0] if per else [])
        states.append((before, nlog, nupd))
        judge(env, p, names[i], cands[i], rq, replies[-1], before, snapshot(mod), log[nlog:], listener.sent[nupd:], mod, spec,
              final=i == len(reqs) - 1)


def judge(env, p, name, cand, rq, reply, before, after, newlog, updates, mod, spec, final):
    action, specifier, pdesc, expect = REQS[name]
    K = f'C04/{name}'
    if not env.check(len(reply) == 1, K + '/not-exactly-one-reply', len(reply)):
        return
    ract, rspec, rdata = reply[0]
    ok_action = {'change': 'changed', 'do': 'done'}[action]
    if ract == ok_action:
        env.note('reached-driver')
        env.check(isinstance(expect, str), K + '/forbidden-request-accepted')
        if not isinstance(expect, str):
            return
        kind, _, target = expect.partition(':')
        if kind == 'cache':
            env.check(newlog == [], K + '/driver-called-without-write-method')
            env.check(M.And(0 <= after[target][0], after[target][0] <= 1), K + '/out-of-set-value-cached')
            return
        if not env.check(len(newlog) == 1 and newlog[0][0] == target, K + '/driver-not-called-exactly-once', [e[0] for e in newlog]):
            return
        judge_value(env, K, name, target, cand, newlog[0], before, after, mod, spec)
        return
    env.note('refused')
    if not env.check(ract == 'error_' + action and rspec == specifier, K + '/reply-action-or-specifier', [ract, rspec]):
        return
    errcls = rdata[0]
    if isinstance(expect, set):
        env.check(errcls in expect, K + '/wrong-error-class', errcls)
    else:
        env.check(errcls in PAYLOAD_ERRORS, K + '/wrong-error-class', errcls)
    env.check(newlog == [], K + '/driver-called-although-refused', [e[0] for e in newlog])
    same = M.And(*[M.And(M.eq(before[n][0], after[n][0]), before[n][1] == after[n][1],
                         before[n][2] == after[n][2]) for n in before])
    env.check(same, K + '/cache-changed-although-refused')
    env.check(updates == [], K + '/update-emitted-although-refused', len(updates))


def judge_value(env, K, name, target, cand, entry, before, after, mod, spec):
    """the value handed to the driver is the offered one, valid and inside the dynamic limits"""
    if target in ('pf', 'pk', 'target', 'target_min', 'target_max', 'x', 'cust', 'cmd1'):
        v = entry[1]
        x = M.as_real(cand.value)
        lo, hi = {'pf': (spec.lo, spec.hi), 'pk': (-100, 100), 'cust': (-M.FMAX, M.FMAX), 'cmd1': (0, 10)}.get(target, (-1000, 1000))
        env.check(M.And(lo <= v, v <= hi), K + '/out-of-datainfo-value-reached-driver')
        env.check(M.absv(v - x) <= M.sx_max(M.absv(x) * 1.2e-7, 0), K + '/driver-got-other-value')
        if target == 'pk':
            env.check(v <= spec.thr, K + '/check-hook-bypassed')
        if target == 'target':
            env.check(M.And(before['target_min'][0] <= v, v <= before['target_max'][0]), K + '/dynamic-limit-bypassed')
        if target == 'x':
            xl = before['x_limits'][0]
            env.check(M.And(xl[0] <= v, v <= xl[1]), K + '/dynamic-limit-bypassed')
        if target in after:
            env.check(M.eq(after[target][0], v), K + '/cache-differs-from-written')
        return
    if target == 'psc':
        v = entry[1]
        x = cand.value
        env.check(M.integral(x), K + '/fraction-accepted-for-scaled')
        env.check(M.And(0 <= v, v <= 10, v == x * 0.1), K + '/driver-got-other-value')
        return
    if target == 'pbl':
        env.check(entry[1] == b'ab', K + '/driver-got-other-value', repr(entry[1]))
        return
    if target == 'ptu':
        v = entry[1]
        env.check(isinstance(v, tuple) and len(v) == 2 and v[1] == 'ab', K + '/driver-got-other-value')
        env.check(M.And(0 <= v[0], v[0] <= 5, v[0] == cand.parts[0].value), K + '/out-of-datainfo-value-reached-driver')
        return
    if target == 'pbig':
        env.check(entry[1] == cand.value and M.pytype(entry[1]) is int, K + '/driver-got-other-value', [entry[1], cand.value])
        return
    if target == 'pi':
        v = entry[1]
        env.check(M.And(spec.ilo <= v, v <= spec.ihi, M.pytype(v) is int), K + '/out-of-datainfo-value-reached-driver')
        env.check(v == cand.value, K + '/driver-got-other-value')
        return
    if target == 'x_limits':
        v = entry[1]
        env.check(M.And(-1000 <= v[0], v[1] <= 1000), K + '/out-of-datainfo-value-reached-driver')
        env.check(v[0] <= v[1], K + '/inverted-limits-reached-driver')
        return
    if target == 'ps2':
        v = entry[1]
        env.check(isinstance(v, dict) and set(v) == {'x', 'n'}, K + '/partial-struct-reached-driver')
        return
    if target == 'cmds2':
        env.check(M.And(0 <= entry[1], entry[1] <= 10, 0 <= entry[2], entry[2] <= 5), K + '/out-of-datainfo-argument-reached-driver')
        return
    if target == 'ps':
        v = entry[1]
        ok = isinstance(v, dict) and set(v) == {'x', 'n'}
        if env.check(ok, K + '/partial-struct-not-merged', repr(set(v)) if isinstance(v, dict) else type(v).__name__):
            env.check(M.And(-10 <= v['x'], v['x'] <= 10, 0 <= v['n'], v['n'] <= 5), K + '/out-of-datainfo-value-reached-driver')
            given = cand.parts
            env.check(M.absv(v['x'] - M.as_real(given['x'].value)) <= M.absv(M.as_real(given['x'].value)) * 1.2e-7, K + '/driver-got-other-value')
            if 'n' in given:
                env.check(v['n'] == given['n'].value, K + '/driver-got-other-value')
            else:
                env.check(v['n'] == before['ps'][0]['n'], K + '/partial-struct-not-merged-with-current')
        return
    if target == 'pa':
        v = entry[1]
        env.check(isinstance(v, tuple) and len(v) == len(cand.parts), K + '/driver-got-other-value')
        for a, c in zip(v, cand.parts):
            env.check(M.And(0 <= a, a <= 9, a == c.value), K + '/out-of-datainfo-value-reached-driver')
        return
    if target == 'pe':
        v = entry[1]
        env.check(int(v) in (1, 2, 5), K + '/out-of-datainfo-value-reached-driver')
        want = {'a': 1, 'b': 2, 'c': 5}.get(cand.value, cand.value) if isinstance(cand.value, str) else cand.value
        env.check(int(v) == want, K + '/driver-got-other-value')
        return
    if target == 'pb':
        v = entry[1]
        env.check(M.pytype(v) is bool, K + '/out-of-datainfo-value-reached-driver')
        env.check(M.Or(cand.value == 0, cand.value == 1), K + '/out-of-datainfo-value-reached-driver')
        return
    if target == 'pstr':
        env.check(entry[1] == cand.value, K + '/driver-got-other-value')
        return
    if target == 'cmdt':
        a, b = entry[1], entry[2]
        env.check(M.And(0 <= a, a <= 10, 0 <= b, b <= 5), K + '/out-of-datainfo-argument-reached-driver')
        env.check(M.And(M.absv(a - M.as_real(cand.parts[0].value)) <= M.absv(M.as_real(cand.parts[0].value)) * 1.2e-7, b == cand.parts[1].value), K + '/driver-got-other-value')
        return
    if target == 'cmds':
        x, n = entry[1], entry[2]
        env.check(M.And(0 <= x, x <= 10, 0 <= n, n <= 5), K + '/out-of-datainfo-argument-reached-driver')
        return
    if target == 'cmd0':
        return
    raise ValueError(target)
