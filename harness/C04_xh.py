"""C04 -- CrossHair part: symbolic strings (see engine/xh.py, harness/xh/)"""
PROPERTY = 'C04'
FUNCTIONS = []
ASSUMPTIONS = ['CrossHair conditions: symbolic str arguments of bounded length (see the contract of each function in harness/xh); verdicts other '
               'than "Confirmed over all paths" are inconclusive for that condition']


def cases(tier):
    return []


def xh_conditions(tier):
    return [{'id': 'C04/xh/change-routing', 'file': 'xh_node', 'function': 'change_routing'},
            {'id': 'C04/xh/do-routing', 'file': 'xh_node', 'function': 'do_routing'}]
