"""C20 -- logging: exact per-connection routing, rotation keeps the newest files"""
import os
import shutil
import tempfile

import common as C

PROPERTY = 'C20'
FUNCTIONS = ['frappy.logging.RemoteLogHandler.{handle,set_conn_level}', 'frappy.logging.check_level', 'frappy.modulebase.Module.setRemoteLogging',
             'frappy.protocol.dispatcher.Dispatcher.{handle_logging,set_all_log_levels,reset_connection,remove_connection,handle__ident,send_log_msg}',
             'frappy.logging.LogfileHandler.doRollover (+ mlzlog.LogfileHandler.doRollover, real files)']
ASSUMPTIONS = ['routing: 2 connections x 2 modules, <= 3 (quick) / 4 (thorough) operations chosen by symbolic selectors out of '
               '{logging <m1|m2|.> <level>, emit(module, level), *IDN?, disconnect}; levels debug/info/warning/error/off plus an invalid name and an invalid kind',
               'rotation: a real directory in the scratch area pre-filled with n in 0..6 dated files, symbolic retention N in 0..n+2 '
               '(resolved by the solver value by value), two consecutive rollovers, calendar driven by a patched time module',
               'foreign (non dated) files in the log directory are outside the claim']
REQUIRED_TAGS = ['delivered', 'suppressed', 'rotated']
LIMITS = {'quick': {'max_paths': 60000, 'max_s': 150}, 'thorough': {'max_paths': 600000, 'max_s': 900}}

LEVELS = ['debug', 'info', 'warning', 'error', 'off', 'loud', 5]
LEVELNO = {'debug': 10, 'info': 20, 'warning': 30, 'error': 40, 'off': 99, 'critical': 50}
RECLEVELS = ['debug', 'info', 'warning', 'error', 'critical']      # critical (50): a python level without a SECoP name
KINDS = ['logging', 'emit', 'idn', 'disconnect']


def cases(tier):
    depth = 4 if tier == 'thorough' else 3
    out = []
    for k in range(len(KINDS)):
        for k2 in range(len(KINDS)):
            out.append({'fn': 'run_routing', 'id': f'routing/{KINDS[k]}-{KINDS[k2]}', 'params': {'first': [k, k2], 'depth': depth}})
            if tier == 'thorough':
                out.append({'fn': 'run_routing', 'id': f'routing-full/{KINDS[k]}-{KINDS[k2]}',
                            'params': {'first': [k, k2], 'depth': 3, 'full': True}})
    for n in range(7):
        out.append({'fn': 'run_rotation', 'id': f'rotation/n{n}', 'params': {'n': n}})
        # foreign entries in the log directory: other files, and the comlog directory frappy itself creates there
        out.append({'fn': 'run_rotation', 'id': f'rotation-foreign/n{n}', 'params': {'n': n, 'foreign': True}})
    return out


def run_routing(env, p):
    import logging
    full = p.get('full')
    levels = LEVELS if full else ['debug', 'warning', 'off', 'loud']
    targets = ['m1', 'm2', '.'] if full else ['m1', '.']
    reclevels = RECLEVELS if full else ['debug', 'info', 'error', 'critical']
    from frappy.core import Module
    K = 'C20/routing'

    class M1(Module):
        pass
    srv = C.make_node({'m1': {'cls': M1, 'description': 'a'}, 'm2': {'cls': M1, 'description': 'b'}})
    disp = srv.dispatcher
    handler = C.LOG.handlers[0]
    handler.subscriptions.clear()
    conns = [C.Conn('c0'), C.Conn('c1')]
    for c in conns:
        disp.add_connection(c)
    model = {}    # (conn index, module) -> levelno
    mods = ['m1', 'm2']
    for step in range(p['depth']):
        kind = KINDS[p['first'][step] if step < len(p['first']) else env.choice(f'kind{step}', len(KINDS))]
        ci = env.choice(f'conn{step}', 2) if kind != 'emit' else 0
        conn = conns[ci]
        if kind == 'logging':
            spec = targets[env.choice(f'target{step}', len(targets))]
            level = levels[env.choice(f'level{step}', len(levels))]
            before = {k: dict(v) for k, v in handler.subscriptions.items()}
            try:
                reply = disp.handle_request(conn, ('logging', spec, level))
                ok = True
            except Exception:
                ok = False
            valid = level in LEVELNO
            env.check(ok == valid, K + '/invalid-level-accepted-or-valid-refused', [level, ok])
            if valid:
                env.check(reply == ('logging', spec, level), K + '/reply', reply)
                for m in (mods if spec == '.' else [spec]):
                    if level == 'off':
                        model.pop((ci, m), None)
                    else:
                        model[(ci, m)] = LEVELNO[level]
            else:
                env.check({k: dict(v) for k, v in handler.subscriptions.items()} == before, K + '/invalid-level-changed-subscriptions')
        elif kind == 'emit':
            m = mods[env.choice(f'mod{step}', 2)]
            lv = reclevels[env.choice(f'reclevel{step}', len(reclevels))]
            rec = logging.LogRecord(f'frappy.{m}', LEVELNO[lv], __file__, 1, 'msg %d', (step,), None)
            n0 = [len(c.sent) for c in conns]
            try:
                handler.handle(rec)
            except Exception as e:
                env.fail(K + '/log-call-raised-into-the-caller/' + type(e).__name__, [m, lv, repr(e)])
                return
            for i, c in enumerate(conns):
                new = c.sent[n0[i]:]
                want = (i, m) in model and LEVELNO[lv] >= model[(i, m)]
                if want:
                    env.note('delivered')
                    if lv == 'critical':
                        env.check(len(new) == 1 and new[0][0] == 'log' and new[0][1].startswith(m + ':') and new[0][2] == f'msg {step}',
                                  K + '/not-delivered-or-wrong-message', [i, m, lv, new])
                        continue
                    env.check(new == [('log', f'{m}:{lv}', f'msg {step}')], K + '/not-delivered-or-wrong-message', [i, m, lv, new])
                else:
                    env.note('suppressed')
                    env.check(new == [], K + '/delivered-although-not-enabled', [i, m, lv, new])
        elif kind == 'idn':
            reply = disp.handle_request(conn, ('*IDN?', None, None))
            env.check(reply[0].startswith('ISSE'), K + '/idn-reply')
            for m in mods:
                model.pop((ci, m), None)
        else:
            disp.remove_connection(conn)
            for m in mods:
                model.pop((ci, m), None)
    # final sweep: every module x level against the model
    import logging
    for m in mods:
        for lv in RECLEVELS:
            rec = logging.LogRecord(f'frappy.{m}', LEVELNO[lv], __file__, 1, 'final', (), None)
            n0 = [len(c.sent) for c in conns]
            try:
                handler.handle(rec)
            except Exception as e:
                env.fail(K + '/log-call-raised-into-the-caller/' + type(e).__name__, [m, lv, repr(e)])
                return
            for i, c in enumerate(conns):
                want = (i, m) in model and LEVELNO[lv] >= model[(i, m)]
                env.check((len(c.sent) - n0[i] == 1) == want, K + '/final-sweep-differs-from-model', [i, m, lv])
    env.note('rotated')


class FakeTime:
    """calendar for mlzlog: one call of next_day() moves to the following date"""
    def __init__(self, days):
        self.days = days
        self.i = 0

    def strftime(self, fmt, *args):
        return self.days[self.i]

    def next_day(self):
        self.i += 1

    def __getattr__(self, name):
        import time
        return getattr(time, name)


def run_rotation(env, p):
    import mlzlog
    from frappy.logging import LogfileHandler
    K = 'C20/rotation'
    n = p['n']
    retention = env.int('N', 0, n + 2)
    base = '/dev/shm' if os.path.isdir('/dev/shm') else None
    d = tempfile.mkdtemp(prefix='c20-', dir=base)
    saved_time = mlzlog.time
    try:
        days = ['2024-01-%02d' % (i + 1) for i in range(n + 3)]
        fake = FakeTime(days)
        fake.i = n      # "today" is the day after the n existing files
        mlzlog.time = fake
        logdir = os.path.join(d, 'root')
        os.makedirs(logdir)
        for i in range(n):
            with open(os.path.join(logdir, f'root-{days[i]}.log'), 'w') as f:
                f.write('old\n')
        foreign = []
        if p.get('foreign'):
            for name in ('README.txt', 'zzz.txt'):
                with open(os.path.join(logdir, name), 'w') as f:
                    f.write('not a log file\n')
            os.makedirs(os.path.join(logdir, 'comlog', 'node'))
            foreign = ['README.txt', 'comlog', 'zzz.txt']
        h = LogfileHandler(d, 'root', max_days=retention)
        h.stream = h._open()
        existing = sorted(f for f in os.listdir(logdir) if f != 'current')
        # two rollovers on consecutive days, then two more on the same day (after days without a record the log
        # handler rolls over once per record until it has caught up: the file name stays the same)
        for advance in (True, True, False, False):
            if advance:
                fake.next_day()
            before = sorted(f for f in os.listdir(logdir) if f != 'current')
            try:
                h.doRollover()
            except Exception as e:
                env.fail(K + '/rollover-raises/' + type(e).__name__, repr(e))
                return
            after = sorted(f for f in os.listdir(logdir) if f != 'current')
            env.check([f for f in after if f in foreign] == foreign, K + '/foreign-entry-removed', [foreign, after])
            before = [f for f in before if f not in foreign]
            after = [f for f in after if f not in foreign]
            current = os.path.basename(h.baseFilename)
            allfiles = sorted(set(before) | {current})
            # the oracle works on the concrete retention of this path
            N = int(retention) if not hasattr(retention, 'e') else None
            if N is None:
                import symx
                N = symx.current().concretize(retention)
            if N == 0:
                want = allfiles
            else:
                want = allfiles[-N:] if N <= len(allfiles) else allfiles
            env.check(current in after, K + '/file-being-written-removed', [N, after])
            env.check(after == want, K + '/kept-files-differ', {'N': N, 'before': before, 'after': after, 'want': want})
            env.note('rotated')
        h.stream.close()
    finally:
        mlzlog.time = saved_time
        shutil.rmtree(d, ignore_errors=True)
    env.note('delivered')
    env.note('suppressed')
