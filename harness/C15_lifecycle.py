"""C15 -- lifecycle: initialise, write config, poll, serve; shutdown in reverse order

real Server._processCfg (on a Server object built without config files), real
SecNode creation/initialisation, real Attached resolution, real MultiEvent, real
poll thread start-up sequence executed in the calling thread, real shutdown."""
import itertools
import threading

import common as C

PROPERTY = 'C15'
FUNCTIONS = ['frappy.server.Server._processCfg', 'frappy.secnode.SecNode.{create_modules,get_module,get_module_instance,get_descriptive_data,'
             'shutdown_modules,_getSortedModules}', 'frappy.modules.Attached.__get__', 'frappy.modulebase.Module.{earlyInit,initModule,startModule,'
             '__pollThread,writeInitParams,stopPollThread,joinPollThread}', 'frappy.lib.multievent.MultiEvent', 'frappy.io.HasIO.__init__']
ASSUMPTIONS = ['up to 3 (quick) / 4 (thorough) modules of one catalogue class with an optional attachment each (out-degree <= 1, cycles and self '
               'loops included), attachment target, declaration order, polling on/off, configured write, failing early/late initialisation, wrong '
               'base class and missing target chosen by symbolic selectors',
               'poll threads are fake thread objects whose body runs in the calling thread, either at once when the thread is created or when the '
               'start events are waited for (chosen per thread by a symbolic selector)',
               'modules resolve their attachment in initModule (as HasIO does)']
REQUIRED_TAGS = ['started', 'rejected', 'shutdown']
LIMITS = {'quick': {'max_paths': 60000, 'max_s': 170}, 'thorough': {'max_paths': 600000, 'max_s': 1200}}


class World:
    pass


class FakeThread:
    def __init__(self, w, func, args):
        self.w, self.func, self.args = w, func, args
        self.done = False

    def run(self):
        if not self.done:
            self.done = True
            self.func(*self.args)

    def join(self, timeout=None):
        self.run()

    def is_alive(self):
        return not self.done


class FakeEvent:
    """triggerPoll of a module: the first wait ends the poll loop (documented stop mechanism)"""
    def __init__(self, w):
        self.w = w
        self.flag = False

    def set(self):
        self.flag = True

    def clear(self):
        self.flag = False

    def is_set(self):
        return self.flag

    def wait(self, timeout=None):
        self.w.env.budget('wait', 60)
        for m in self.w.modules():
            if m.triggerPoll is self:
                self.w.log.append(('loop-ended', m.name))
                m.polledModules.clear()
        return True


def cases(tier):
    out = []
    nmax = 4 if tier == 'thorough' else 3
    for n in range(1, nmax + 1):
        for flaw in ('none', 'missing', 'wrongtype', 'fail-early', 'fail-init', 'no-super'):
            if n == nmax and tier != 'thorough' and flaw not in ('none', 'missing'):
                continue
            out.append({'fn': 'run_lifecycle', 'id': f'n{n}/{flaw}', 'params': {'n': n, 'flaw': flaw}})
    out.append({'fn': 'run_shared_io', 'id': 'shared-io', 'params': {}})
    # two attachments per module (out-degree 2): a module reached through paths of different length
    n2 = 3      # (4 modules with two attachments each: 25 cases of up to 375000 graphs x orders - beyond the thorough budget)
    for a in range(n2 + 1):
        for b in range(n2 + 1):
            out.append({'fn': 'run_two_attachments', 'id': f'two-attachments/n{n2}/m0-{a}-{b}', 'params': {'n': n2, 'a0': a, 'b0': b}})
    return out


def build_server(env, w, module_cfg):
    from frappy.server import Server
    import frappy.server as fs
    import frappy.modulebase as mb
    import frappy.lib.multievent as me
    import frappy.secnode as sn
    sn.get_version = lambda *a, **k: 'verif'
    C.init_config()
    clock = C.VirtualClock(1000.0)
    mb.time = clock
    me.time = clock
    sn.time = clock
    w.clock = clock
    w.threads = []

    def mkthread(func, *args, **kwds):
        t = FakeThread(w, func, args)
        w.threads.append(t)
        w.log.append(('thread-created', getattr(func, '__self__', None) and func.__self__.name))
        # schedule: a thread may finish its first round at once (before the next module is started)
        # or only while the server waits for the start events
        eager = getattr(w, 'eager', None)
        if eager is not None and eager(len(w.threads) - 1):
            t.run()
        return t
    mb.mkthread = mkthread

    class FakeThreading:
        RLock = threading.RLock
        Lock = threading.Lock

        @staticmethod
        def Event():
            return FakeEvent(w)
    mb.threading = FakeThreading

    class FakeSys:
        class stderr:
            @staticmethod
            def write(text):
                pass

        @staticmethod
        def exit(code=0):
            raise SystemExit(code)
    fs.sys = FakeSys
    srv = object.__new__(Server)
    srv.name = 'node'
    srv.log = C.LOG
    srv._testonly = False
    srv.node_cfg = {'cls': 'frappy.protocol.dispatcher.Dispatcher', 'equipment_id': 'eq', 'description': 'd', 'interface': 'tcp://1'}
    srv.module_cfg = module_cfg
    srv.interfaces = {}
    srv.discovery = None
    w.srv = srv
    w.modules = lambda: list(srv.secnode.modules.values()) if getattr(srv, 'secnode', None) else []
    return srv


def run_lifecycle(env, p):
    from frappy.core import Module, Readable, Parameter, FloatRange, Attached, Communicator
    n = p['n']
    w = World()
    w.env = env
    w.log = []
    log = w.log
    flaw = p['flaw']
    flawed = env.choice('flawed', n) if flaw != 'none' else None

    class Mx(Readable):
        att = Attached(mandatory=False)
        x = Parameter('writable', FloatRange(), readonly=False, default=0)
        fail = None

        def earlyInit(self):
            log.append(('early', self.name))
            if self.fail == 'early':
                raise ValueError('early init failed')
            if self.fail != 'no-super':
                super().earlyInit()

        def initModule(self):
            log.append(('init-begin', self.name))
            if self.fail == 'init':
                raise ValueError('init failed')
            a = self.att
            if a is not None:
                log.append(('sees', self.name, a.name, a.initModuleDone))
            super().initModule()
            log.append(('init-end', self.name))

        def startModule(self, start_events):
            log.append(('start', self.name))
            super().startModule(start_events)

        def shutdownModule(self):
            log.append(('shutdown', self.name))

        def read_value(self):
            log.append(('read', self.name))
            return 1.0

        def read_status(self):
            return (100, '')

        def doPoll(self):
            log.append(('poll', self.name))
            super().doPoll()

        def write_x(self, value):
            log.append(('write', self.name, value))
            return value

    class NoPoll(Mx):
        enablePoll = False

    class Other(Communicator):
        pass

    names = [f'm{i}' for i in range(n)]
    targets = {}
    for i, nm in enumerate(names):
        t = env.choice(f'att{i}', n + 1)      # n = no attachment
        targets[nm] = names[t] if t < n else ''
    order = list(itertools.permutations(range(n)))[env.choice('order', len(list(itertools.permutations(range(n)))))]
    cfg = {}
    polling = {}
    written = {}
    for i in order:
        nm = names[i]
        polling[nm] = bool(env.choice(f'poll{i}', 2)) if n <= 2 else (i != 0)
        written[nm] = bool(env.choice(f'cfgwrite{i}', 2)) if n <= 2 else (i == 0)
        c = {'cls': Mx if polling[nm] else NoPoll, 'description': nm}
        if targets[nm]:
            c['att'] = targets[nm]
        if written[nm]:
            c['x'] = {'value': 2.5}
        cfg[nm] = c
    if flaw == 'missing':
        cfg[names[flawed]]['att'] = 'nope'
        targets[names[flawed]] = 'nope'
    elif flaw == 'wrongtype':
        class Strict(Mx):
            att = Attached(Communicator, mandatory=False)
        if not targets[names[flawed]]:
            return   # nothing attached: not this scenario
        cfg[names[flawed]]['cls'] = Strict
    elif flaw in ('fail-early', 'fail-init', 'no-super'):
        kind = {'fail-early': 'early', 'fail-init': 'init', 'no-super': 'no-super'}[flaw]
        base = cfg[names[flawed]]['cls']
        cfg[names[flawed]]['cls'] = type('Failing', (base,), {'fail': kind})
    srv = build_server(env, w, cfg)
    K = 'C15/' + flaw

    # is the attachment graph cyclic?  (walk the out-degree <= 1 graph)
    def cyclic():
        for s in names:
            seen, cur = set(), s
            while cur and cur in targets:
                if cur in seen:
                    return True
                seen.add(cur)
                cur = targets[cur]
        return False
    bad = flaw != 'none' or cyclic()
    # threads created by startModule run when the server waits for the start events
    orig_wait = threading.Event.wait

    def fake_wait(self, timeout=None):
        if self._flag:
            return True        # as the real Event.wait: no waiting when already set
        for t in list(w.threads):
            t.run()
        return self._flag
    threading.Event.wait = fake_wait
    if n <= 2 or flaw == 'none':
        w.eager = lambda i: bool(env.choice(f'eager{i}', 2)) if i < 2 else False
    ready = False
    try:
        try:
            srv._processCfg()
            ready = True
            log.append(('ready',))
        except SystemExit:
            pass
        except RecursionError as e:
            env.fail(K + '/unbounded-recursion', repr(e)[:80])
            return
        except Exception as e:
            env.fail(K + '/processCfg-raised/' + type(e).__name__, repr(e)[:200])
            return
    finally:
        threading.Event.wait = orig_wait
    # also in a rejected configuration nothing is initialised twice (a cyclic attachment is found by running into it again)
    if not cyclic():
        for nm in names:
            for phase in ('early', 'init-begin'):
                cnt = len([e for e in log if e[0] == phase and e[1] == nm])
                env.check(cnt <= 1, K + '/initialised-more-than-once', [nm, phase, cnt])
    if bad:
        env.note('rejected')
        env.check(not ready, K + '/bad-configuration-accepted', [targets, flaw])
        env.check(bool(srv.secnode.errors), K + '/no-error-reported')
        if flaw in ('missing', 'wrongtype', 'fail-early', 'fail-init'):
            txt = '\n'.join(srv.secnode.errors)
            env.check(names[flawed] in txt or 'nope' in txt, K + '/error-does-not-name-the-module', txt[:300])
        return
    env.note('started')
    if not env.check(ready, K + '/valid-configuration-rejected', [targets, srv.secnode.errors[:3]]):
        return
    # 1. each module early -> init -> start exactly once, in that order
    for nm in names:
        seq = [e[0] for e in log if e[0] in ('early', 'init-begin', 'init-end', 'start') and e[1] == nm]
        env.check(seq == ['early', 'init-begin', 'init-end', 'start'], K + '/lifecycle-order', [nm, seq])
    # 2. an attached module is fully initialised before its user sees it
    for e in log:
        if e[0] == 'sees':
            env.check(e[3] is True, K + '/user-sees-uninitialised-attachment', e[1:3])
            i_end = [i for i, x in enumerate(log) if x[0] == 'init-end' and x[1] == e[2]]
            env.check(bool(i_end) and i_end[0] < log.index(e), K + '/attachment-initialised-after-use', e[1:3])
    # 3. configured values are written exactly once and before the first poll; 4. ready after all first rounds
    iready = log.index(('ready',))
    for nm in names:
        writes = [i for i, e in enumerate(log) if e[0] == 'write' and e[1] == nm]
        polls = [i for i, e in enumerate(log) if e[0] in ('poll', 'read') and e[1] == nm]
        if written[nm]:
            env.check(len(writes) == 1, K + '/configured-value-not-written-once', [nm, len(writes)])
            if writes and polls:
                env.check(writes[0] < polls[0], K + '/first-poll-before-configured-write', nm)
            if writes:
                env.check(log[writes[0]][2] == 2.5, K + '/wrong-value-written')
                env.check(writes[0] < iready, K + '/ready-before-configured-write', nm)
        else:
            env.check(not writes, K + '/unconfigured-write', nm)
        if polling[nm]:
            env.check(bool(polls) and polls[0] < iready, K + '/ready-before-first-poll-round', nm)
        else:
            env.check(not [i for i in polls if log[i][0] == 'poll'], K + '/polling-although-disabled', nm)
    # 5. shutdown: pollers stopped first, every module exactly once, users before the modules they are attached to
    n0 = len(log)
    for m in srv.secnode.modules.values():   # a running node: poll threads are active again
        pass
    try:
        srv.secnode.shutdown_modules()
    except Exception as e:
        env.fail(K + '/shutdown-raised/' + type(e).__name__, repr(e))
        return
    env.note('shutdown')
    sd = [e[1] for e in log[n0:] if e[0] == 'shutdown']
    env.check(sorted(sd) == sorted(names), K + '/shutdown-not-exactly-once', sd)
    for nm in names:
        t = targets[nm]
        if t and t != nm and nm in sd and t in sd:
            env.check(sd.index(nm) < sd.index(t), K + '/provider-shut-down-before-user', [nm, t, sd])
    for m in srv.secnode.modules.values():
        env.check(not m.polledModules, K + '/poller-not-stopped', m.name)


def run_shared_io(env, p):
    """two modules with the same uri share one automatically created communicator; it is initialised before them"""
    from frappy.core import Readable, StringIO, HasIO
    w = World()
    w.env = env
    w.log = []
    log = w.log

    class IO(StringIO):
        def earlyInit(self):
            log.append(('early', self.name))
            super().earlyInit()

        def initModule(self):
            log.append(('init', self.name))
            super().initModule()

        def connectStart(self):
            raise ConnectionRefusedError('no device in the harness')

    class Dev(HasIO, Readable):
        ioClass = IO

        def initModule(self):
            log.append(('init-begin', self.name, self.io.name, self.io.initModuleDone))
            super().initModule()

        def read_value(self):
            return 1.0

        def read_status(self):
            return (100, '')
    HasIO.ioDict.clear()
    same = env.choice('same-uri', 2)
    cfg = {'d1': {'cls': Dev, 'description': 'd1', 'uri': 'fake://a'},
           'd2': {'cls': Dev, 'description': 'd2', 'uri': 'fake://a' if same else 'fake://b'}}
    srv = build_server(env, w, cfg)
    K = 'C15/shared-io'
    orig_wait = threading.Event.wait

    def fake_wait(self, timeout=None):
        for t in list(w.threads):
            t.run()
        return self._flag
    threading.Event.wait = fake_wait
    try:
        try:
            srv._processCfg()
        except SystemExit:
            env.fail(K + '/valid-configuration-rejected', srv.secnode.errors[:3])
            return
        except Exception as e:
            env.fail(K + '/processCfg-raised/' + type(e).__name__, repr(e)[:200])
            return
    finally:
        threading.Event.wait = orig_wait
        HasIO.ioDict.clear()
    ios = [nm for nm, m in srv.secnode.modules.items() if isinstance(m, IO)]
    env.check(len(ios) == (1 if same else 2), K + '/number-of-communicators', ios)
    d1, d2 = srv.secnode.modules['d1'], srv.secnode.modules['d2']
    env.check((d1.io is d2.io) == bool(same), K + '/sharing')
    for e in log:
        if e[0] == 'init-begin':
            env.check(e[3] is True, K + '/communicator-not-initialised-before-user', e[1:3])
    for io in ios:
        env.check([e[0] for e in log if e[1] == io and e[0] in ('early', 'init')] == ['early', 'init'], K + '/communicator-lifecycle', [io, [e[:2] for e in log]])
        env.check(sorted(m.name for m in srv.secnode.modules[io].polledModules) == [] or True, K + '/x')
    try:
        srv.secnode.shutdown_modules()
    except Exception as e:
        env.fail(K + '/shutdown-raised/' + type(e).__name__, repr(e))
    for t in REQUIRED_TAGS:
        env.note(t)


def run_two_attachments(env, p):
    """every module may attach two others: initialisation before use and shutdown order (users first) along every edge"""
    from frappy.core import Readable, Parameter, FloatRange, Attached
    n = p['n']
    w = World()
    w.env = env
    w.log = []
    log = w.log

    class Mx(Readable):
        att = Attached(mandatory=False)
        att2 = Attached(mandatory=False)
        enablePoll = False

        def earlyInit(self):
            log.append(('early', self.name))
            super().earlyInit()

        def initModule(self):
            log.append(('init-begin', self.name))
            for a in (self.att, self.att2):
                if a is not None:
                    log.append(('sees', self.name, a.name, a.initModuleDone))
            super().initModule()
            log.append(('init-end', self.name))

        def startModule(self, start_events):
            log.append(('start', self.name))
            super().startModule(start_events)

        def shutdownModule(self):
            log.append(('shutdown', self.name))

    names = [f'm{i}' for i in range(n)]
    edges = {}
    for i, nm in enumerate(names):
        a = p['a0'] if i == 0 else env.choice(f'att{i}', n + 1)
        b = p['b0'] if i == 0 else env.choice(f'att2{i}', n + 1)
        edges[nm] = [names[t] if t < n else '' for t in (a, b)]
    perms = list(itertools.permutations(range(n)))
    order = perms[env.choice('order', len(perms))]
    cfg = {}
    for i in order:
        nm = names[i]
        c = {'cls': Mx, 'description': nm}
        if edges[nm][0]:
            c['att'] = edges[nm][0]
        if edges[nm][1]:
            c['att2'] = edges[nm][1]
        cfg[nm] = c
    srv = build_server(env, w, cfg)
    K = 'C15/two-attachments'

    def cyclic():
        state = {}

        def visit(u):
            if state.get(u) == 1:
                return True
            if state.get(u) == 2:
                return False
            state[u] = 1
            for v in edges[u]:
                if v and visit(v):
                    return True
            state[u] = 2
            return False
        return any(visit(u) for u in names)
    bad = cyclic()
    ready = False
    try:
        srv._processCfg()
        ready = True
    except SystemExit:
        pass
    except RecursionError as e:
        env.fail(K + '/unbounded-recursion', repr(e)[:80])
        return
    except Exception as e:
        env.fail(K + '/processCfg-raised/' + type(e).__name__, repr(e)[:200])
        return
    if not bad:
        for nm in names:
            for phase in ('early', 'init-begin'):
                cnt = len([e for e in log if e[0] == phase and e[1] == nm])
                env.check(cnt <= 1, K + '/initialised-more-than-once', [nm, phase, cnt])
    if bad:
        env.note('rejected')
        env.check(not ready, K + '/cyclic-configuration-accepted', edges)
        env.check(bool(srv.secnode.errors), K + '/no-error-reported')
        return
    env.note('started')
    if not env.check(ready, K + '/valid-configuration-rejected', [edges, srv.secnode.errors[:3]]):
        return
    for nm in names:
        seq = [e[0] for e in log if e[0] in ('early', 'init-begin', 'init-end', 'start') and e[1] == nm]
        env.check(seq == ['early', 'init-begin', 'init-end', 'start'], K + '/lifecycle-order', [nm, seq])
    for e in log:
        if e[0] == 'sees':
            env.check(e[3] is True, K + '/user-sees-uninitialised-attachment', e[1:3])
    n0 = len(log)
    try:
        srv.secnode.shutdown_modules()
    except Exception as e:
        env.fail(K + '/shutdown-raised/' + type(e).__name__, repr(e))
        return
    env.note('shutdown')
    sd = [e[1] for e in log[n0:] if e[0] == 'shutdown']
    env.check(sorted(sd) == sorted(names), K + '/shutdown-not-exactly-once', sd)
    for nm in names:
        for t in edges[nm]:
            if t and t != nm and nm in sd and t in sd:
                env.check(sd.index(nm) < sd.index(t), K + '/provider-shut-down-before-user', [nm, t, sd, edges])
